(* The generated state machines accept exactly the call sequences of the structural specification,
   for every protocol shape whose positions fit the C++ uint8_t state. *)
From Coq Require Import List NArith Bool Arith Lia.
From YV Require Import Model.ProtoSM.
Import ListNotations.

Lemma u8_small : forall n, n < 256 -> u8 n = n.
Proof. intros n H. unfold u8. apply Nat.mod_small. assumption. Qed.

Lemma in_range_lt : forall sh i, in_range sh i = true -> i < length sh.
Proof. intros sh i H. unfold in_range in H. apply Nat.ltb_lt in H. assumption. Qed.

(* ---------- writers ---------- *)

Lemma cppw_step_spec : forall sh pos c, length sh < 256 -> pos <= length sh ->
  cppw_step sh pos c = specw_step sh pos c
  /\ (forall p', specw_step sh pos c = Some p' -> p' <= length sh).
Proof.
  intros sh pos c Hn Hp. destruct c as [i|i|i|]; cbn [cppw_step specw_step].
  - destruct (Nat.eqb pos i) eqn:E.
    + apply Nat.eqb_eq in E. subst i. rewrite Nat.eqb_refl. cbn [andb]. rewrite andb_true_r.
      destruct (in_range sh pos) eqn:Er; cbn [andb]; [|split; [reflexivity|discriminate]].
      apply in_range_lt in Er. destruct (is_stream sh pos); cbn [negb]; [split; [reflexivity|discriminate]|].
      rewrite u8_small by lia. replace (pos + 1) with (S pos) by lia. split; [reflexivity|]. intros p' H. injection H as <-. lia.
    + rewrite Nat.eqb_sym, E. rewrite andb_false_r. cbn [andb]. split; [reflexivity|discriminate].
  - destruct (Nat.eqb pos i) eqn:E.
    + apply Nat.eqb_eq in E. subst i. rewrite Nat.eqb_refl. cbn [andb]. rewrite andb_true_r.
      destruct (in_range sh pos && is_stream sh pos); split; try reflexivity; try discriminate.
      intros p' H. injection H as <-. assumption.
    + rewrite Nat.eqb_sym, E. rewrite andb_false_r. cbn [andb]. split; [reflexivity|discriminate].
  - destruct (Nat.eqb pos i) eqn:E.
    + apply Nat.eqb_eq in E. subst i. rewrite Nat.eqb_refl. cbn [andb]. rewrite andb_true_r.
      destruct (in_range sh pos) eqn:Er; cbn [andb]; [|split; [reflexivity|discriminate]].
      apply in_range_lt in Er. destruct (is_stream sh pos); [|split; [reflexivity|discriminate]].
      rewrite u8_small by lia. replace (pos + 1) with (S pos) by lia. split; [reflexivity|]. intros p' H. injection H as <-. lia.
    + rewrite Nat.eqb_sym, E. rewrite andb_false_r. cbn [andb]. split; [reflexivity|discriminate].
  - split; [reflexivity|]. destruct (Nat.eqb pos (length sh)); [|discriminate]. intros p' H. injection H as <-. assumption.
Qed.

Lemma run_cppw_spec : forall sh cs pos, length sh < 256 -> pos <= length sh ->
  run (cppw_step sh) pos cs = run (specw_step sh) pos cs.
Proof.
  intros sh cs. induction cs as [|c cs IH]; intros pos Hn Hp; [reflexivity|].
  cbn [run]. destruct (cppw_step_spec sh pos c Hn Hp) as [E Hb]. rewrite E.
  destruct (specw_step sh pos c) as [p'|]; [|reflexivity]. apply IH; [assumption|apply Hb; reflexivity].
Qed.

Theorem cppw_correct : forall sh cs, length sh < 256 -> cppw_accepts sh cs = specw_accepts sh cs.
Proof. intros sh cs H. unfold cppw_accepts, specw_accepts. rewrite run_cppw_spec by lia. reflexivity. Qed.

Lemma matw_step_spec : forall sh pos c, matw_step sh pos c = specw_step sh pos c.
Proof.
  intros sh pos c. destruct c as [i|i|i|]; cbn [matw_step specw_step]; try reflexivity;
    (destruct (Nat.eqb pos i) eqn:E;
     [apply Nat.eqb_eq in E; subst i; rewrite Nat.eqb_refl; cbn [andb]; rewrite andb_true_r;
      replace (pos + 1) with (S pos) by lia; reflexivity
     |rewrite Nat.eqb_sym, E; rewrite andb_false_r; reflexivity]).
Qed.

Theorem matw_correct : forall sh cs, matw_accepts sh cs = specw_accepts sh cs.
Proof.
  intros sh cs. unfold matw_accepts, specw_accepts. generalize 0 as pos.
  induction cs as [|c cs IH]; intros pos; [reflexivity|]. cbn [run]. rewrite matw_step_spec.
  destruct (specw_step sh pos c); [apply IH|reflexivity].
Qed.

(* the C++ state does overflow: with 256 non-stream steps the complete, in-order sequence is rejected
   at Close (state_ wrapped to 0), and step 0 is accepted a second time *)
Definition all_vals (n : nat) : list wcall := map WVal (seq 0 n).
Theorem cppw_overflow_refuted :
  let sh := repeat false 256 in
  specw_accepts sh (all_vals 256 ++ [WClose]) = true
  /\ cppw_accepts sh (all_vals 256 ++ [WClose]) = false
  /\ cppw_accepts sh (all_vals 256 ++ [WVal 0]) = true
  /\ specw_accepts sh (all_vals 256 ++ [WVal 0]) = false.
Proof. vm_compute. repeat split. Qed.

(* ---------- C++ reader ---------- *)

Definition enc_rpos (p : rpos) : nat := match p with At pos => 2 * pos | Ended pos => 2 * pos + 1 end.
Definition rpos_ok (sh : shape) (p : rpos) : Prop :=
  match p with
  | At pos => pos <= length sh
  | Ended pos => pos < length sh /\ is_stream sh pos = true
  end.

Lemma option_map_enc : forall a b : option rpos, a = b -> option_map enc_rpos a = option_map enc_rpos b.
Proof. intros; subst; reflexivity. Qed.

Lemma cppr_step_spec : forall sh p c, 2 * length sh < 256 -> rpos_ok sh p ->
  cppr_step sh (enc_rpos p) c = option_map enc_rpos (specr_step sh p c)
  /\ (forall p', specr_step sh p c = Some p' -> rpos_ok sh p').
Proof.
  intros sh p c Hn Hok.
  assert (Hu : forall k, k <= 2 * length sh -> u8 k = k) by (intros; apply u8_small; lia).
  destruct c as [i|i more|i more|]; cbn [cppr_step specr_step].
  - (* value step *)
    destruct (in_range sh i) eqn:Er; cbn [andb]; [|split; [reflexivity|discriminate]].
    apply in_range_lt in Er. destruct (is_stream sh i) eqn:Es; cbn [negb andb]; [split; [reflexivity|discriminate]|].
    unfold cppr_enter, rpos_enter. destruct p as [pos|pos]; cbn [enc_rpos] in *.
    + destruct (Nat.eqb pos i) eqn:E.
      * apply Nat.eqb_eq in E. subst pos. rewrite Nat.eqb_refl. cbn [option_map enc_rpos]. rewrite Hu by lia.
        split; [f_equal; lia|]. intros p' H. injection H as <-. cbn. lia.
      * apply Nat.eqb_neq in E. replace (Nat.eqb (2 * pos) (2 * i)) with false by (symmetry; apply Nat.eqb_neq; lia).
        replace (Nat.eqb (2 * pos) (2 * i - 1)) with false by (symmetry; apply Nat.eqb_neq; lia).
        rewrite andb_false_r. split; [reflexivity|discriminate].
    + destruct Hok as [Hp Hsp].
      replace (Nat.eqb (2 * pos + 1) (2 * i)) with false by (symmetry; apply Nat.eqb_neq; lia).
      destruct (Nat.eqb (S pos) i) eqn:E.
      * apply Nat.eqb_eq in E. subst i. unfold prev_stream. rewrite Hsp. cbn [andb].
        replace (Nat.eqb (2 * pos + 1) (2 * S pos - 1)) with true by (symmetry; apply Nat.eqb_eq; lia).
        cbn [option_map enc_rpos]. rewrite Hu by lia. split; [f_equal; lia|]. intros p' H. injection H as <-. cbn. lia.
      * apply Nat.eqb_neq in E. replace (Nat.eqb (2 * pos + 1) (2 * i - 1)) with false by (symmetry; apply Nat.eqb_neq; lia).
        rewrite andb_false_r. split; [reflexivity|discriminate].
  - (* single item read *)
    destruct (in_range sh i) eqn:Er; cbn [andb]; [|split; [reflexivity|discriminate]].
    apply in_range_lt in Er. destruct (is_stream sh i) eqn:Es; cbn [andb]; [|split; [reflexivity|discriminate]].
    unfold cppr_enter. destruct p as [pos|pos]; cbn [enc_rpos] in *.
    + replace (Nat.eqb (2 * pos) (2 * i + 1)) with false by (symmetry; apply Nat.eqb_neq; lia).
      destruct (Nat.eqb pos i) eqn:E.
      * apply Nat.eqb_eq in E. subst pos. rewrite Nat.eqb_refl. destruct more; cbn [option_map enc_rpos].
        -- split; [reflexivity|]. intros p' H. injection H as <-. cbn. lia.
        -- rewrite Hu by lia. split; [f_equal; lia|]. intros p' H. injection H as <-. cbn. lia.
      * apply Nat.eqb_neq in E. replace (Nat.eqb (2 * pos) (2 * i)) with false by (symmetry; apply Nat.eqb_neq; lia).
        replace (Nat.eqb (2 * pos) (2 * i - 1)) with false by (symmetry; apply Nat.eqb_neq; lia).
        rewrite andb_false_r. split; [reflexivity|discriminate].
    + destruct Hok as [Hp Hsp]. destruct (Nat.eqb pos i) eqn:E.
      * apply Nat.eqb_eq in E. subst pos. rewrite Nat.eqb_refl. cbn [option_map enc_rpos]. rewrite Hu by lia.
        split; [f_equal; lia|]. intros p' H. injection H as <-. cbn. lia.
      * apply Nat.eqb_neq in E. replace (Nat.eqb (2 * pos + 1) (2 * i + 1)) with false by (symmetry; apply Nat.eqb_neq; lia).
        replace (Nat.eqb (2 * pos + 1) (2 * i)) with false by (symmetry; apply Nat.eqb_neq; lia).
        destruct (Nat.eqb (S pos) i) eqn:E2.
        -- apply Nat.eqb_eq in E2. subst i. unfold prev_stream. rewrite Hsp. cbn [andb].
           replace (Nat.eqb (2 * pos + 1) (2 * S pos - 1)) with true by (symmetry; apply Nat.eqb_eq; lia).
           destruct more; cbn [option_map enc_rpos].
           ++ split; [reflexivity|]. intros p' H. injection H as <-. cbn. lia.
           ++ rewrite Hu by lia. split; [f_equal; lia|]. intros p' H. injection H as <-. cbn. lia.
        -- apply Nat.eqb_neq in E2. replace (Nat.eqb (2 * pos + 1) (2 * i - 1)) with false by (symmetry; apply Nat.eqb_neq; lia).
           rewrite andb_false_r. split; [reflexivity|discriminate].
  - (* batch read *)
    destruct (in_range sh i) eqn:Er; cbn [andb]; [|split; [reflexivity|discriminate]].
    apply in_range_lt in Er. destruct (is_stream sh i) eqn:Es; cbn [andb]; [|split; [reflexivity|discriminate]].
    unfold cppr_enter. destruct p as [pos|pos]; cbn [enc_rpos] in *.
    + replace (Nat.eqb (2 * pos) (2 * i + 1)) with false by (symmetry; apply Nat.eqb_neq; lia).
      destruct (Nat.eqb pos i) eqn:E.
      * apply Nat.eqb_eq in E. subst pos. rewrite Nat.eqb_refl. destruct more; cbn [option_map enc_rpos].
        -- split; [reflexivity|]. intros p' H. injection H as <-. cbn. lia.
        -- rewrite Hu by lia. split; [reflexivity|]. intros p' H. injection H as <-. cbn. split; [lia|assumption].
      * apply Nat.eqb_neq in E. replace (Nat.eqb (2 * pos) (2 * i)) with false by (symmetry; apply Nat.eqb_neq; lia).
        replace (Nat.eqb (2 * pos) (2 * i - 1)) with false by (symmetry; apply Nat.eqb_neq; lia).
        rewrite andb_false_r. split; [reflexivity|discriminate].
    + destruct Hok as [Hp Hsp]. destruct (Nat.eqb pos i) eqn:E.
      * apply Nat.eqb_eq in E. subst pos. rewrite Nat.eqb_refl. cbn [option_map enc_rpos]. rewrite Hu by lia.
        split; [f_equal; lia|]. intros p' H. injection H as <-. cbn. lia.
      * apply Nat.eqb_neq in E. replace (Nat.eqb (2 * pos + 1) (2 * i + 1)) with false by (symmetry; apply Nat.eqb_neq; lia).
        replace (Nat.eqb (2 * pos + 1) (2 * i)) with false by (symmetry; apply Nat.eqb_neq; lia).
        destruct (Nat.eqb (S pos) i) eqn:E2.
        -- apply Nat.eqb_eq in E2. subst i. unfold prev_stream. rewrite Hsp. cbn [andb].
           replace (Nat.eqb (2 * pos + 1) (2 * S pos - 1)) with true by (symmetry; apply Nat.eqb_eq; lia).
           destruct more; cbn [option_map enc_rpos].
           ++ split; [reflexivity|]. intros p' H. injection H as <-. cbn. lia.
           ++ rewrite Hu by lia. split; [reflexivity|]. intros p' H. injection H as <-. cbn. split; [lia|assumption].
        -- apply Nat.eqb_neq in E2. replace (Nat.eqb (2 * pos + 1) (2 * i - 1)) with false by (symmetry; apply Nat.eqb_neq; lia).
           rewrite andb_false_r. split; [reflexivity|discriminate].
  - (* close *)
    destruct p as [pos|pos]; cbn [enc_rpos] in *.
    + destruct (Nat.eqb pos (length sh)) eqn:E.
      * apply Nat.eqb_eq in E. subst pos. rewrite Nat.eqb_refl. cbn. split; [reflexivity|]. intros p' H. injection H as <-. cbn. lia.
      * apply Nat.eqb_neq in E. replace (Nat.eqb (2 * pos) (2 * length sh)) with false by (symmetry; apply Nat.eqb_neq; lia).
        replace (Nat.eqb (2 * pos) (2 * length sh - 1)) with false by (symmetry; apply Nat.eqb_neq; lia).
        rewrite andb_false_r. split; [reflexivity|discriminate].
    + destruct Hok as [Hp Hsp].
      replace (Nat.eqb (2 * pos + 1) (2 * length sh)) with false by (symmetry; apply Nat.eqb_neq; lia).
      destruct (Nat.eqb (S pos) (length sh)) eqn:E.
      * apply Nat.eqb_eq in E. unfold prev_stream. rewrite <- E. rewrite Hsp. cbn [andb].
        replace (Nat.eqb (2 * pos + 1) (2 * S pos - 1)) with true by (symmetry; apply Nat.eqb_eq; lia).
        cbn [option_map enc_rpos]. rewrite Hu by lia. split; [reflexivity|]. intros p' H. injection H as <-. cbn. lia.
      * apply Nat.eqb_neq in E. replace (Nat.eqb (2 * pos + 1) (2 * length sh - 1)) with false by (symmetry; apply Nat.eqb_neq; lia).
        rewrite andb_false_r. split; [reflexivity|discriminate].
Qed.

Lemma run_cppr_spec : forall sh cs p, 2 * length sh < 256 -> rpos_ok sh p ->
  run (cppr_step sh) (enc_rpos p) cs = option_map enc_rpos (runr sh p cs).
Proof.
  intros sh cs. induction cs as [|c cs IH]; intros p Hn Hok; [reflexivity|].
  cbn [run runr]. destruct (cppr_step_spec sh p c Hn Hok) as [E Hb]. rewrite E.
  destruct (specr_step sh p c) as [p'|]; [|reflexivity]. cbn [option_map]. apply IH; [assumption|apply Hb; reflexivity].
Qed.

Theorem cppr_correct : forall sh cs, 2 * length sh < 256 -> cppr_accepts sh cs = specr_accepts sh cs.
Proof.
  intros sh cs H. unfold cppr_accepts, specr_accepts.
  change (run (cppr_step sh) 0 cs) with (run (cppr_step sh) (enc_rpos (At 0)) cs).
  rewrite run_cppr_spec; [|assumption|cbn; lia].
  destruct (runr sh (At 0) cs); reflexivity.
Qed.

(* 128 steps: 2*128 = 256 wraps to 0; a complete in-order read cannot be closed, and step 0 can be read again *)
Definition all_rvals (n : nat) : list rcall := map RVal (seq 0 n).
Theorem cppr_overflow_refuted :
  let sh := repeat false 128 in
  specr_accepts sh (all_rvals 128 ++ [RClose]) = true
  /\ cppr_accepts sh (all_rvals 128 ++ [RClose]) = false
  /\ cppr_accepts sh (all_rvals 128 ++ [RVal 0]) = true
  /\ specr_accepts sh (all_rvals 128 ++ [RVal 0]) = false.
Proof. vm_compute. repeat split. Qed.

(* ---------- MATLAB reader: plain position ---------- *)
(* (its specification IS the position machine; stated for the record) *)
Theorem matr_positions : forall sh st c st', matr_step sh st c = Some st' -> st' = st \/ st' = st + 1.
Proof.
  intros sh st c st' H. destruct c as [i|i more|i|]; cbn [matr_step] in H.
  - destruct (in_range sh i && negb (is_stream sh i) && Nat.eqb st i) eqn:E; [|discriminate]. injection H as <-.
    apply andb_true_iff in E. destruct E as [_ E]. apply Nat.eqb_eq in E. subst. right. reflexivity.
  - destruct (in_range sh i && is_stream sh i && Nat.eqb st i) eqn:E; [|discriminate]. injection H as <-.
    apply andb_true_iff in E. destruct E as [_ E]. apply Nat.eqb_eq in E. subst. destruct more; [left|right]; reflexivity.
  - destruct (in_range sh i && is_stream sh i && Nat.eqb st i); [|discriminate]. injection H as <-. left. reflexivity.
  - destruct (Nat.eqb st (length sh)); [|discriminate]. injection H as <-. left. reflexivity.
Qed.

(* ---------- Python writer: close() is idempotent: a repeated close writes nothing more ---------- *)
Theorem pyw_close_idempotent : forall sh se se', pyw_step sh se PWClose = Some se' -> pyw_step sh se' PWClose = Some se'.
Proof.
  intros sh [st ends] se' H. unfold pyw_step in *.
  remember (2 * length sh) as m eqn:Hm.
  destruct (prev_stream sh (length sh) && Nat.eqb st (m - 1)) eqn:E.
  - injection H as <-.
    apply andb_true_iff in E. destruct E as [Ep E].
    assert (Hpos : length sh <> 0) by (destruct sh; [cbn in Ep; discriminate|cbn; lia]).
    assert (E1 : Nat.eqb m (m - 1) = false) by (apply Nat.eqb_neq; lia).
    rewrite E1, andb_false_r, Nat.eqb_refl. reflexivity.
  - destruct (Nat.eqb st m) eqn:E2; [|discriminate]. injection H as <-.
    rewrite E, E2. reflexivity.
Qed.
