(* The signed-integer write path of the runtimes, composed from its bit-level pieces: zig-zag by shifts and xor on a W-bit
   machine word (Model.ZigZagBits) followed by the mask/or/shift varint loop (Model.VarintBits), emits exactly what
   Model.Binary.enc_int says, for every varint-encoded signed primitive (int16/32/64, date, time, datetime), every machine
   width W at least the primitive's width (C++ widens int16 to 32 bits; Python and MATLAB always use 64) and every in-range
   value. *)
From Coq Require Import List NArith ZArith Bool Lia.
From YV Require Import Base.Wire Model.Binary Model.ZigZagBits Proofs.ZigZagBitsProofs Model.VarintBits Proofs.VarintBitsProofs.
Import ListNotations.

Lemma in_range_widen : forall w W z, (0 < w)%N -> (w <= W)%N -> in_range_s w z = true ->
  (- 2 ^ (Z.of_N W - 1) <= z < 2 ^ (Z.of_N W - 1))%Z.
Proof.
  intros w W z Hw HW H. unfold in_range_s in H. apply andb_true_iff in H. destruct H as [Hlo Hhi].
  apply Z.leb_le in Hlo. apply Z.ltb_lt in Hhi.
  assert (Hm : (2 ^ (Z.of_N w - 1) <= 2 ^ (Z.of_N W - 1))%Z) by (apply Z.pow_le_mono_r; lia).
  lia.
Qed.

Theorem cpp_signed_write_bits : forall p w W z,
  int_width p = Some (true, w) -> (8 < w)%N -> (w <= W)%N -> int_ok p z = true ->
  cpp_venc (Z.to_N (cpp_zz_enc (Z.of_N W) z)) = enc_int p z.
Proof.
  intros p w W z Hp Hw HW Hok. unfold int_ok in Hok. unfold enc_int. rewrite Hp in *.
  assert (E : (w <=? 8)%N = false) by (apply N.leb_gt; exact Hw). rewrite E.
  rewrite cpp_zz_enc_correct; [| lia | apply (in_range_widen w W z); [lia | exact HW | exact Hok]].
  rewrite N2Z.id. apply cpp_venc_correct.
Qed.

Theorem py_signed_write_bits : forall p w z,
  int_width p = Some (true, w) -> (8 < w)%N -> (w <= 64)%N -> int_ok p z = true ->
  py_venc (Z.to_N (py_zz_enc z)) = enc_int p z.
Proof.
  intros p w z Hp Hw HW Hok. unfold int_ok in Hok. unfold enc_int. rewrite Hp in *.
  assert (E : (w <=? 8)%N = false) by (apply N.leb_gt; exact Hw). rewrite E.
  rewrite py_zz_enc_correct; [| apply (in_range_widen w 64 z); [lia | exact HW | exact Hok]].
  rewrite N2Z.id. apply py_venc_correct.
Qed.

(* every signed varint primitive of the model satisfies the width hypotheses with the machine widths the runtimes use *)
Example signed_prims_covered :
  forallb (fun p => match int_width p with
                    | Some (true, w) => (w <=? 8)%N || ((w <=? 64)%N && (w <=? (if (w <=? 32)%N then 32 else 64))%N)
                    | _ => true end)
          [PBool; PInt8; PUint8; PInt16; PUint16; PInt32; PUint32; PInt64; PUint64; PSize; PDate; PTime; PDateTime] = true.
Proof. vm_compute. reflexivity. Qed.

Print Assumptions cpp_signed_write_bits.
Print Assumptions py_signed_write_bits.
