(* A reader program behaves over the buffered C++ stream exactly as over the byte list, for every buffer size. *)
From Coq Require Import List NArith ZArith Bool Lia Arith.
From YV Require Import Base.Wire Model.CodedCpp Proofs.CodedCppIn Model.CppReadProg.
Import ListNotations.
Open Scope N_scope.

Theorem cprog_refines : forall A bufsize (p : cprog A) s, (0 < bufsize)%nat -> Inv bufsize s ->
  match arun_c p (pending s) with
  | CVal a r => exists s', mrun_c bufsize p s = CMVal a s' /\ Inv bufsize s' /\ pending s' = r
  | CEnd => mrun_c bufsize p s = CMStop Eof
  | CBad => mrun_c bufsize p s = CMBad
  | CMalformed => True            (* a varint longer than its byte budget: shifting past the accumulator is undefined in C++ *)
  | CNotFinished => mrun_c bufsize p s = CMStop (Fault NotFinished)
  end.
Proof.
  intros A bufsize p. induction p as [a| |op k IH]; intros s Hb Hinv; cbn [arun_c mrun_c].
  - exists s. split; [reflexivity|]. split; [assumption|reflexivity].
  - reflexivity.
  - pose proof (rstep_refines bufsize Hb s op Hinv) as H.
    destruct (astep (pending s) op) as [v r| | |].
    + destruct H as [s1 [-> [Hp Hi]]]. specialize (IH v s1 Hb Hi). rewrite Hp in IH. exact IH.
    + destruct (rstep bufsize s op) as [[x| |x] s1]; cbn in H; try discriminate. reflexivity.
    + exact I.
    + destruct (rstep bufsize s op) as [[x| |x] s1]; cbn in H; try discriminate. injection H as ->. reflexivity.
Qed.
