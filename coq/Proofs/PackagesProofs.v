(* collectPackages: what a successful load guarantees, what each error means, and when the verdict
   cannot depend on the order of import lists. *)
From Coq Require Import List NArith Bool Lia Arith.
From YV Require Import Model.Packages.
Import ListNotations.
Open Scope N_scope.

Section P.
Variable F : tree.

Definition imports (d : dir) : list dir := match F d with Some (_, l) => l | None => [] end.
Definition nsof (d : dir) : option nsid := match F d with Some (n, _) => Some n | None => None end.

Inductive reach (a : dir) : dir -> Prop :=
| r_refl : reach a a
| r_step : forall b c, reach a b -> In c (imports b) -> reach a c.

(* a path of at least one import edge *)
Inductive tplus (a : dir) : dir -> Prop :=
| t_one : forall b, In b (imports a) -> tplus a b
| t_step : forall b c, tplus a b -> In c (imports b) -> tplus a c.

Lemma reach_trans : forall a b c, reach a b -> reach b c -> reach a c.
Proof. intros a b c H1 H2. induction H2; [assumption|]. eapply r_step; eauto. Qed.

Lemma tplus_reach : forall a b, tplus a b -> reach a b.
Proof. intros a b H. induction H; [eapply r_step; [apply r_refl|assumption]|eapply r_step; eauto]. Qed.

Lemma reach_tplus_step : forall a b c, reach a b -> In c (imports b) -> tplus a c.
Proof.
  intros a b c H. revert c. induction H; intros c0 Hc; [apply t_one; assumption|].
  eapply t_step; [apply IHreach; eassumption|assumption].
Qed.

(* every element's imports occur strictly earlier, and no element occurs twice *)
Definition topo (l : list dir) : Prop :=
  forall a b c, l = a ++ b :: c -> incl (imports b) a /\ ~ In b a.

Lemma topo_nil : topo [].
Proof. intros a b c H. destruct a; discriminate. Qed.

Lemma topo_snoc : forall l d, topo l -> incl (imports d) l -> ~ In d l -> topo (l ++ [d]).
Proof.
  intros l d Ht Hi Hn a b c H.
  destruct c as [|x c'] using rev_ind.
  - replace (a ++ [b]) with (a ++ [b]) in H by reflexivity.
    apply app_inj_tail in H. destruct H as [-> ->]. split; assumption.
  - clear IHc'. rewrite app_comm_cons, app_assoc in H. apply app_inj_tail in H. destruct H as [H ->].
    apply (Ht a b c'). assumption.
Qed.

(* ---------- lookup / membership ---------- *)

Lemma lookup_In : forall n l d, lookup n l = Some d -> In (n, d) l.
Proof.
  induction l as [|[m x] l IH]; intros d H; [discriminate|]. cbn [lookup] in H.
  destruct (m =? n) eqn:E.
  - apply N.eqb_eq in E. injection H as <-. subst. left. reflexivity.
  - right. apply IH, H.
Qed.

Lemma lookup_None : forall n l, lookup n l = None -> ~ In n (map fst l).
Proof.
  induction l as [|[m x] l IH]; intros H; [intros []|]. cbn [lookup] in H.
  destruct (m =? n) eqn:E; [discriminate|]. apply N.eqb_neq in E.
  cbn [map fst In]. intros [H1|H1]; [congruence|]. exact (IH H H1).
Qed.

Lemma memN_In : forall n l, memN n l = true <-> In n l.
Proof.
  intros n l. unfold memN. rewrite existsb_exists. split.
  - intros [x [H1 H2]]. apply N.eqb_eq in H2. subst. assumption.
  - intros H. exists n. split; [assumption|apply N.eqb_refl].
Qed.

Lemma memN_false : forall n l, memN n l = false -> ~ In n l.
Proof. intros n l H Hin. apply memN_In in Hin. congruence. Qed.

(* ---------- the invariant of a successful traversal ---------- *)

Variable root : dir.

Record Inv (chain : list nsid) (s : cstate) : Prop := {
  i_coll : forall n d, In (n, d) (coll s) -> nsof d = Some n /\ reach root d;
  i_fun : NoDup (map fst (coll s));
  i_fin : forall d, In d (fin s) -> exists n, nsof d = Some n /\ In (n, d) (coll s);
  i_split : forall n d, In (n, d) (coll s) -> In n chain \/ In d (fin s);
  i_topo : topo (fin s)
}.

(* what one successful collect (of d, reachable from root) adds *)
Definition Post (chain : list nsid) (d : dir) (s s' : cstate) : Prop :=
  Inv chain s' /\ In d (fin s') /\ incl (coll s) (coll s')
  /\ exists ext, fin s' = fin s ++ ext
       /\ forall x, In x ext -> reach d x /\ forall n, nsof x = Some n -> ~ In n chain.

Lemma NoDup_fst_unique : forall (l : list (nsid * dir)) n d1 d2,
  NoDup (map fst l) -> In (n, d1) l -> In (n, d2) l -> d1 = d2.
Proof.
  induction l as [|[m x] l IH]; intros n d1 d2 Hnd H1 H2; [destruct H1|].
  cbn [map fst] in Hnd. inversion Hnd as [|? ? Hnot Hnd']; subst.
  destruct H1 as [H1|H1]; destruct H2 as [H2|H2].
  - congruence.
  - injection H1 as -> ->. exfalso. apply Hnot. apply in_map_iff. exists (n, d2). split; [reflexivity|assumption].
  - injection H2 as -> ->. exfalso. apply Hnot. apply in_map_iff. exists (n, d1). split; [reflexivity|assumption].
  - eapply IH; eauto.
Qed.

(* the loop over an import list, given the specification of the recursive call *)
Lemma collect_list_ok : forall (rec : dir -> cstate -> cstate * option cerr) chain,
  (forall x s s', reach root x -> Inv chain s -> rec x s = (s', None) -> Post chain x s s') ->
  forall ds s s', (forall x, In x ds -> reach root x) -> Inv chain s ->
    collect_list rec ds s = (s', None) ->
    Inv chain s' /\ incl ds (fin s') /\ incl (coll s) (coll s')
    /\ exists ext, fin s' = fin s ++ ext
         /\ forall x, In x ext -> (exists d0, In d0 ds /\ reach d0 x) /\ forall n, nsof x = Some n -> ~ In n chain.
Proof.
  intros rec chain Hrec. induction ds as [|x r IH]; intros s s' Hreach HI H.
  - cbn in H. injection H as <-. split; [assumption|]. split; [intros y []|]. split; [apply incl_refl|].
    exists []. rewrite app_nil_r. split; [reflexivity|intros y []].
  - cbn [collect_list] in H. destruct (rec x s) as [s1 [e|]] eqn:E; [discriminate|].
    destruct (Hrec x s s1 (Hreach x (or_introl eq_refl)) HI E) as [HI1 [Hx [Hc1 [ext1 [Hf1 He1]]]]].
    destruct (IH s1 s' (fun y Hy => Hreach y (or_intror Hy)) HI1 H) as [HI2 [Hr [Hc2 [ext2 [Hf2 He2]]]]].
    split; [assumption|]. split.
    + intros y [<-|Hy]; [rewrite Hf2; apply in_or_app; left; assumption|apply Hr, Hy].
    + split; [eapply incl_tran; eassumption|].
      exists (ext1 ++ ext2). split; [rewrite Hf2, Hf1, app_assoc; reflexivity|].
      intros y Hy. apply in_app_or in Hy. destruct Hy as [Hy|Hy].
      * destruct (He1 y Hy) as [G1 G2]. split; [exists x; split; [left; reflexivity|assumption]|assumption].
      * destruct (He2 y Hy) as [[d0 [G0 G1]] G2]. split; [exists d0; split; [right; assumption|assumption]|assumption].
Qed.

Lemma collect_ok : forall fuel chain d s s', reach root d -> Inv chain s ->
  collect fuel F chain d s = (s', None) -> Post chain d s s'.
Proof.
  induction fuel as [|f IH]; intros chain d s s' Hrd HI H.
  - (* no fuel: success is only possible for an already collected package *)
    cbn [collect] in H. destruct (F d) as [[n imps]|] eqn:EF; [|discriminate].
    destruct (memN n chain) eqn:Em; [discriminate|].
    destruct (lookup n (coll s)) as [d'|] eqn:El; [|discriminate].
    destruct (d' =? d) eqn:Ed; [|discriminate]. apply N.eqb_eq in Ed. subst d'. injection H as <-.
    split; [assumption|]. split.
    + destruct (i_split _ _ HI n d (lookup_In _ _ _ El)) as [Hc|Hf]; [exfalso; exact (memN_false _ _ Em Hc)|assumption].
    + split; [apply incl_refl|]. exists []. rewrite app_nil_r. split; [reflexivity|intros x []].
  - cbn [collect] in H. destruct (F d) as [[n imps]|] eqn:EF; [|discriminate].
    destruct (memN n chain) eqn:Em; [discriminate|].
    destruct (lookup n (coll s)) as [d'|] eqn:El.
    + destruct (d' =? d) eqn:Ed; [|discriminate]. apply N.eqb_eq in Ed. subst d'. injection H as <-.
      split; [assumption|]. split.
      * destruct (i_split _ _ HI n d (lookup_In _ _ _ El)) as [Hc|Hf]; [exfalso; exact (memN_false _ _ Em Hc)|assumption].
      * split; [apply incl_refl|]. exists []. rewrite app_nil_r. split; [reflexivity|intros x []].
    + set (s1 := mkC ((n, d) :: coll s) (fin s)) in *.
      destruct (collect_list (collect f F (n :: chain)) imps s1) as [s2 [e|]] eqn:EL; [discriminate|].
      injection H as <-.
      assert (Hnsd : nsof d = Some n) by (unfold nsof; rewrite EF; reflexivity).
      assert (Himp : imports d = imps) by (unfold imports; rewrite EF; reflexivity).
      assert (HI1 : Inv (n :: chain) s1).
      { constructor; cbn [coll fin s1].
        - intros m x [Hx|Hx]; [injection Hx as <- <-; split; assumption|apply (i_coll _ _ HI), Hx].
        - cbn [map fst]. constructor; [apply lookup_None, El|apply (i_fun _ _ HI)].
        - intros x Hx. destruct (i_fin _ _ HI x Hx) as [m [G1 G2]]. exists m. split; [assumption|right; assumption].
        - intros m x [Hx|Hx]; [injection Hx as <- <-; left; left; reflexivity|].
          destruct (i_split _ _ HI m x Hx) as [G|G]; [left; right; assumption|right; assumption].
        - apply (i_topo _ _ HI). }
      destruct (collect_list_ok (collect f F (n :: chain)) (n :: chain)
                  (fun x s0 s0' Hx => IH (n :: chain) x s0 s0' Hx) imps s1 s2) as [HI2 [Hall [Hc2 [ext [Hf2 He2]]]]].
      { intros x Hx. eapply r_step; [exact Hrd|rewrite Himp; exact Hx]. }
      { exact HI1. }
      { exact EL. }
      (* d itself cannot have been finished meanwhile *)
      assert (Hdnot : ~ In d (fin s2)).
      { rewrite Hf2. cbn [fin s1]. intros Hin. apply in_app_or in Hin. destruct Hin as [Hin|Hin].
        - destruct (i_fin _ _ HI d Hin) as [m [G1 G2]]. rewrite Hnsd in G1. injection G1 as <-.
          apply (lookup_None _ _ El). apply in_map_iff. exists (n, d). split; [reflexivity|assumption].
        - destruct (He2 d Hin) as [_ G]. apply (G n Hnsd). left. reflexivity. }
      split; [|split; [|split]].
      * constructor; cbn [coll fin].
        -- apply (i_coll _ _ HI2).
        -- apply (i_fun _ _ HI2).
        -- intros x Hx. apply in_app_or in Hx. destruct Hx as [Hx|[<-|[]]].
           ++ apply (i_fin _ _ HI2), Hx.
           ++ exists n. split; [assumption|]. apply Hc2. left. reflexivity.
        -- intros m x Hx. destruct (i_split _ _ HI2 m x Hx) as [[G|G]|G].
           ++ subst m. right. apply in_or_app. right. left.
              apply (NoDup_fst_unique (coll s2) n d x (i_fun _ _ HI2)); [apply Hc2; left; reflexivity|assumption].
           ++ left. assumption.
           ++ right. apply in_or_app. left. assumption.
        -- apply topo_snoc; [apply (i_topo _ _ HI2)|rewrite Himp; exact Hall|exact Hdnot].
      * cbn [fin]. apply in_or_app. right. left. reflexivity.
      * cbn [coll]. intros y Hy. apply Hc2. right. assumption.
      * exists (ext ++ [d]). cbn [fin]. split; [rewrite Hf2; cbn [fin s1]; rewrite app_assoc; reflexivity|].
        intros x Hx. apply in_app_or in Hx. destruct Hx as [Hx|[<-|[]]].
        -- destruct (He2 x Hx) as [[d0 [G0 G1]] G2]. split.
           ++ eapply reach_trans; [eapply r_step; [apply r_refl|rewrite Himp; exact G0]|exact G1].
           ++ intros m Hm Hin. apply (G2 m Hm). right. assumption.
        -- split; [apply r_refl|]. intros m Hm Hin. rewrite Hnsd in Hm. injection Hm as <-.
           exact (memN_false _ _ Em Hin).
Qed.

End P.

(* ---------- what a successful load means ---------- *)

Theorem load_ok : forall F root s, load F root = (s, None) ->
  (* the emitted order is dependencies-first without repetition *)
  topo F (fin s)
  (* it contains the root and is closed under imports: every reachable package is loaded *)
  /\ (forall d, reach F root d -> In d (fin s))
  (* and nothing else *)
  /\ (forall d, In d (fin s) -> reach F root d /\ nsof F d <> None)
  (* no two loaded directories claim the same namespace *)
  /\ (forall d1 d2, In d1 (fin s) -> In d2 (fin s) -> nsof F d1 = nsof F d2 -> d1 = d2).
Proof.
  intros F root s H. unfold load in H.
  assert (HI0 : Inv F root [] cinit).
  { constructor; cbn; try (intros; contradiction); [constructor|apply topo_nil]. }
  destruct (collect_ok F root max_depth [] root cinit s (r_refl F root) HI0 H) as [HI [Hroot [_ [ext [Hf He]]]]].
  cbn [fin cinit app] in Hf.
  split; [apply (i_topo _ _ _ _ HI)|]. split; [|split].
  - (* closure *)
    intros d Hr. induction Hr as [|b c Hab IHab Hc]; [assumption|].
    destruct (in_split _ _ IHab) as [l1 [l2 Hs]].
    destruct (i_topo _ _ _ _ HI l1 b l2 Hs) as [Hincl _].
    rewrite Hs. apply in_or_app. left. apply Hincl, Hc.
  - intros d Hd. rewrite Hf in Hd. destruct (He d Hd) as [Hr _]. split; [assumption|].
    destruct (i_fin _ _ _ _ HI d) as [n [G _]]; [rewrite Hf; assumption|]. rewrite G. discriminate.
  - intros d1 d2 H1 H2 Hns.
    destruct (i_fin _ _ _ _ HI d1 H1) as [n1 [G1 K1]]. destruct (i_fin _ _ _ _ HI d2 H2) as [n2 [G2 K2]].
    rewrite G1, G2 in Hns. injection Hns as ->.
    exact (NoDup_fst_unique (coll s) n2 d1 d2 (i_fun _ _ _ _ HI) K1 K2).
Qed.

(* ---------- what each error means ---------- *)

Lemma collect_unfold : forall fuel F chain d s,
  collect fuel F chain d s =
  match F d with
  | None => (s, Some (EMissing d))
  | Some (n, imps) =>
      if memN n chain then (s, Some (ECycle d))
      else match lookup n (coll s) with
           | Some d' => if d' =? d then (s, None) else (s, Some (EConflict d d'))
           | None =>
               let s1 := mkC ((n, d) :: coll s) (fin s) in
               match fuel with
               | O => (s1, Some (EDepth d))
               | S f =>
                   match collect_list (collect f F (n :: chain)) imps s1 with
                   | (s2, None) => (mkC (coll s2) (fin s2 ++ [d]), None)
                   | (s2, Some x) => (s2, Some x)
                   end
               end
           end
  end.
Proof. intros fuel F chain d s. destruct fuel; reflexivity. Qed.

Section Errors.
Variable F : tree.
Variable root : dir.
Variable K : nat.     (* the depth budget the traversal started with *)

Definition ChainOK (chain : list nsid) (d : dir) : Prop :=
  forall n, In n chain -> exists p, nsof F p = Some n /\ reach F root p /\ tplus F p d.

Definition ErrOK (e : cerr) : Prop :=
  match e with
  | EMissing x => reach F root x /\ F x = None
  | ECycle x => exists p, reach F root p /\ tplus F p x /\ nsof F p = nsof F x /\ nsof F x <> None
  | EConflict x y => reach F root x /\ reach F root y /\ x <> y /\ nsof F x = nsof F y /\ nsof F x <> None
  | EDepth x => exists ch, NoDup ch /\ length ch = S K
                           /\ forall n, In n ch -> exists p, reach F root p /\ nsof F p = Some n
  end.

Lemma collect_list_err : forall (rec : dir -> cstate -> cstate * option cerr) chain (P : dir -> Prop),
  (forall x s s', P x -> Inv F root chain s -> rec x s = (s', None) -> Inv F root chain s') ->
  (forall x s s' e, P x -> Inv F root chain s -> rec x s = (s', Some e) -> ErrOK e) ->
  forall ds s s' e, (forall x, In x ds -> P x) -> Inv F root chain s ->
    collect_list rec ds s = (s', Some e) -> ErrOK e.
Proof.
  intros rec chain P Hok Herr. induction ds as [|x r IH]; intros s s' e HP HI H; [discriminate|].
  cbn [collect_list] in H. destruct (rec x s) as [s1 [e1|]] eqn:E.
  - injection H as <- <-. eapply Herr; [apply HP; left; reflexivity|exact HI|exact E].
  - eapply IH; [intros y Hy; apply HP; right; exact Hy| |exact H].
    eapply Hok; [apply HP; left; reflexivity|exact HI|exact E].
Qed.

Lemma collect_err : forall fuel chain d s s' e,
  reach F root d -> Inv F root chain s -> ChainOK chain d -> NoDup chain ->
  (fuel + length chain = K)%nat ->
  collect fuel F chain d s = (s', Some e) -> ErrOK e.
Proof.
  induction fuel as [|f IH]; intros chain d s s' e Hrd HI Hch Hnd Hk H; rewrite collect_unfold in H;
    (destruct (F d) as [[n imps]|] eqn:EF; [|injection H as <- <-; split; assumption]);
    (destruct (memN n chain) eqn:Em;
     [injection H as <- <-; apply memN_In in Em; destruct (Hch n Em) as [p [G1 [G2 G3]]];
      exists p; unfold nsof at 2 3; rewrite EF; repeat split; try assumption; discriminate|]);
    (destruct (lookup n (coll s)) as [d'|] eqn:El;
     [destruct (d' =? d) eqn:Ed; [discriminate|]; injection H as <- <-; apply N.eqb_neq in Ed;
      destruct (i_coll _ _ _ _ HI n d' (lookup_In _ _ _ El)) as [G1 G2];
      cbn [ErrOK]; unfold nsof at 1 3; rewrite EF;
      repeat split; try assumption; try congruence; discriminate|]).
  - (* out of depth *)
    cbn zeta in H. injection H as <- <-. cbn [ErrOK]. exists (n :: chain).
    split; [constructor; [exact (memN_false _ _ Em)|assumption]|].
    split; [cbn [length]; lia|]. intros m [<-|Hm].
    + exists d. split; [assumption|unfold nsof; rewrite EF; reflexivity].
    + destruct (Hch m Hm) as [p [G1 [G2 _]]]. exists p. split; assumption.
  - (* an import failed *)
    cbn zeta in H. set (s1 := mkC ((n, d) :: coll s) (fin s)) in *.
    destruct (collect_list (collect f F (n :: chain)) imps s1) as [s2 [e2|]] eqn:EL; [|discriminate].
    injection H as <- <-.
    assert (Hnsd : nsof F d = Some n) by (unfold nsof; rewrite EF; reflexivity).
    assert (Himp : imports F d = imps) by (unfold imports; rewrite EF; reflexivity).
    assert (HI1 : Inv F root (n :: chain) s1).
    { constructor; cbn [coll fin s1].
      - intros m x [Hx|Hx]; [injection Hx as <- <-; split; assumption|apply (i_coll _ _ _ _ HI), Hx].
      - cbn [map fst]. constructor; [apply lookup_None, El|apply (i_fun _ _ _ _ HI)].
      - intros x Hx. destruct (i_fin _ _ _ _ HI x Hx) as [m [G1 G2]]. exists m. split; [assumption|right; assumption].
      - intros m x [Hx|Hx]; [injection Hx as <- <-; left; left; reflexivity|].
        destruct (i_split _ _ _ _ HI m x Hx) as [G|G]; [left; right; assumption|right; assumption].
      - apply (i_topo _ _ _ _ HI). }
    eapply (collect_list_err (collect f F (n :: chain)) (n :: chain) (fun x => In x imps));
      [| |intros x Hx; exact Hx|exact HI1|exact EL].
    + intros x s0 s0' Hx HI0 E0.
      assert (Hrx : reach F root x) by (eapply r_step; [exact Hrd|rewrite Himp; exact Hx]).
      destruct (collect_ok F root f (n :: chain) x s0 s0' Hrx HI0 E0) as [G _]. exact G.
    + intros x s0 s0' e0 Hx HI0 E0.
      assert (Hrx : reach F root x) by (eapply r_step; [exact Hrd|rewrite Himp; exact Hx]).
      eapply (IH (n :: chain) x s0 s0' e0); try eassumption.
      * intros m [<-|Hm].
        -- exists d. split; [assumption|]. split; [assumption|]. apply t_one. rewrite Himp. exact Hx.
        -- destruct (Hch m Hm) as [p [G1 [G2 G3]]]. exists p. split; [assumption|]. split; [assumption|].
           eapply t_step; [exact G3|rewrite Himp; exact Hx].
      * constructor; [exact (memN_false _ _ Em)|assumption].
      * cbn [length]. lia.
Qed.

End Errors.

Theorem load_err : forall F root s e, load F root = (s, Some e) -> ErrOK F root max_depth e.
Proof.
  intros F root s e H. unfold load in H.
  eapply (collect_err F root max_depth max_depth [] root cinit s e); try exact H.
  - apply r_refl.
  - constructor; cbn; try (intros; contradiction); [constructor|apply topo_nil].
  - intros n [].
  - constructor.
  - cbn [length]. lia.
Qed.

(* ---------- the verdict as a property of the graph; independence of import-list order ---------- *)

Definition good (F : tree) (root : dir) : Prop :=
  (forall d, reach F root d -> F d <> None)
  /\ (forall d1 d2, reach F root d1 -> reach F root d2 -> nsof F d1 = nsof F d2 -> d1 = d2)
  /\ (forall p, reach F root p -> ~ tplus F p p).

Lemma topo_tplus_earlier : forall F l, topo F l ->
  forall a b c, l = a ++ b :: c -> forall x, tplus F b x -> In x a.
Proof.
  intros F l Ht a b c Hl x Hx. induction Hx as [x Hx|y x Hby IH Hx].
  - destruct (Ht a b c Hl) as [Hi _]. apply Hi, Hx.
  - destruct (in_split _ _ IH) as [a1 [a2 Ha]]. subst a.
    rewrite <- app_assoc in Hl. cbn [app] in Hl.
    destruct (Ht a1 y (a2 ++ b :: c) Hl) as [Hi _]. apply in_or_app. left. apply Hi, Hx.
Qed.

Theorem ok_implies_good : forall F root s, load F root = (s, None) -> good F root.
Proof.
  intros F root s H. destruct (load_ok F root s H) as [Ht [Hclo [Hfin Hinj]]]. split; [|split].
  - intros d Hr. destruct (Hfin d (Hclo d Hr)) as [_ G]. unfold nsof in G. destruct (F d) as [[n l]|]; congruence.
  - intros d1 d2 H1 H2. apply Hinj; apply Hclo; assumption.
  - intros p Hr Hpp. destruct (in_split _ _ (Hclo p Hr)) as [a [c Hl]].
    pose proof (topo_tplus_earlier F _ Ht a p c Hl p Hpp) as Hin.
    destruct (Ht a p c Hl) as [_ Hn]. contradiction.
Qed.

(* when the reachable packages use at most max_depth namespaces the depth limit cannot bind,
   and then the verdict is exactly a property of the graph *)
Theorem good_implies_ok : forall F root nss,
  (forall d n, reach F root d -> nsof F d = Some n -> In n nss) -> (length nss <= max_depth)%nat ->
  good F root -> snd (load F root) = None.
Proof.
  intros F root nss Hnss Hlen [G1 [G2 G3]].
  destruct (load F root) as [s [e|]] eqn:E; [|reflexivity]. exfalso.
  pose proof (load_err F root s e E) as He. destruct e as [x|x y|x|x]; cbn [ErrOK] in He.
  - destruct He as [p [Hp [Hpx [Hns Hne]]]].
    assert (p = x) by (apply G2; [assumption|eapply reach_trans; [exact Hp|apply tplus_reach; exact Hpx]|assumption]).
    subst x. exact (G3 p Hp Hpx).
  - destruct He as [Hx [Hy [Hne [Hns _]]]]. apply Hne. apply G2; assumption.
  - destruct He as [ch [Hnd [Hl Hall]]].
    assert (Hincl : incl ch nss) by (intros n Hn; destruct (Hall n Hn) as [p [Hp Hnp]]; eapply Hnss; eassumption).
    pose proof (NoDup_incl_length Hnd Hincl). lia.
  - destruct He as [Hx Hnone]. exact (G1 x Hx Hnone).
Qed.

(* two trees that differ only in the ORDER (and repetition) of each import list *)
Definition same_up_to_order (F1 F2 : tree) : Prop :=
  forall d, match F1 d, F2 d with
            | Some (n1, l1), Some (n2, l2) => n1 = n2 /\ (forall x, In x l1 <-> In x l2)
            | None, None => True
            | _, _ => False
            end.

Lemma suo_imports : forall F1 F2, same_up_to_order F1 F2 -> forall d x, In x (imports F1 d) <-> In x (imports F2 d).
Proof.
  intros F1 F2 H d x. specialize (H d). unfold imports. destruct (F1 d) as [[n1 l1]|]; destruct (F2 d) as [[n2 l2]|];
    try contradiction; [apply H|reflexivity].
Qed.

Lemma suo_nsof : forall F1 F2, same_up_to_order F1 F2 -> forall d, nsof F1 d = nsof F2 d.
Proof.
  intros F1 F2 H d. specialize (H d). unfold nsof. destruct (F1 d) as [[n1 l1]|]; destruct (F2 d) as [[n2 l2]|];
    try contradiction; [destruct H as [-> _]; reflexivity|reflexivity].
Qed.

Lemma suo_reach : forall F1 F2, same_up_to_order F1 F2 -> forall a b, reach F1 a b -> reach F2 a b.
Proof.
  intros F1 F2 H a b Hr. induction Hr; [apply r_refl|]. eapply r_step; [eassumption|]. apply (suo_imports F1 F2 H). assumption.
Qed.

Lemma suo_tplus : forall F1 F2, same_up_to_order F1 F2 -> forall a b, tplus F1 a b -> tplus F2 a b.
Proof.
  intros F1 F2 H a b Hr. induction Hr; [apply t_one; apply (suo_imports F1 F2 H); assumption|].
  eapply t_step; [eassumption|]. apply (suo_imports F1 F2 H). assumption.
Qed.

Lemma suo_sym : forall F1 F2, same_up_to_order F1 F2 -> same_up_to_order F2 F1.
Proof.
  intros F1 F2 H d. specialize (H d). destruct (F1 d) as [[n1 l1]|]; destruct (F2 d) as [[n2 l2]|]; try contradiction; [|exact I].
  destruct H as [-> H]. split; [reflexivity|]. intros x. symmetry. apply H.
Qed.

Lemma suo_good : forall F1 F2 root, same_up_to_order F1 F2 -> good F1 root -> good F2 root.
Proof.
  intros F1 F2 root H [G1 [G2 G3]]. pose proof (suo_sym _ _ H) as H'. split; [|split].
  - intros d Hr Hn. pose proof (suo_reach _ _ H' _ _ Hr) as Hr1. specialize (G1 d Hr1). specialize (H d).
    rewrite Hn in H. destruct (F1 d) as [[n l]|]; [contradiction|congruence].
  - intros d1 d2 H1 H2 Hns. apply G2; [apply (suo_reach _ _ H'), H1|apply (suo_reach _ _ H'), H2|].
    rewrite (suo_nsof _ _ H), (suo_nsof _ _ H d2). assumption.
  - intros p Hp Hpp. apply (G3 p); [apply (suo_reach _ _ H'), Hp|apply (suo_tplus _ _ H'), Hpp].
Qed.

Theorem order_independent : forall F1 F2 root nss,
  same_up_to_order F1 F2 ->
  (forall d n, reach F1 root d -> nsof F1 d = Some n -> In n nss) -> (length nss <= max_depth)%nat ->
  (snd (load F1 root) = None <-> snd (load F2 root) = None)
  /\ (forall s1 s2, load F1 root = (s1, None) -> load F2 root = (s2, None) ->
        forall d, In d (fin s1) <-> In d (fin s2)).
Proof.
  intros F1 F2 root nss H Hnss Hlen. pose proof (suo_sym _ _ H) as H'.
  assert (Hnss2 : forall d n, reach F2 root d -> nsof F2 d = Some n -> In n nss).
  { intros d n Hr Hn. apply (Hnss d n); [apply (suo_reach _ _ H'), Hr|rewrite (suo_nsof _ _ H); exact Hn]. }
  split.
  - split; intros Hok.
    + destruct (load F1 root) as [s [e|]] eqn:E; [discriminate|].
      apply (good_implies_ok F2 root nss Hnss2 Hlen). apply (suo_good F1 F2 root H). eapply ok_implies_good; eassumption.
    + destruct (load F2 root) as [s [e|]] eqn:E; [discriminate|].
      apply (good_implies_ok F1 root nss Hnss Hlen). apply (suo_good F2 F1 root H'). eapply ok_implies_good; eassumption.
  - intros s1 s2 E1 E2 d.
    destruct (load_ok F1 root s1 E1) as [_ [C1 [Fi1 _]]]. destruct (load_ok F2 root s2 E2) as [_ [C2 [Fi2 _]]].
    split; intros Hd.
    + apply C2. apply (suo_reach _ _ H). apply (Fi1 d Hd).
    + apply C1. apply (suo_reach _ _ H'). apply (Fi2 d Hd).
Qed.
