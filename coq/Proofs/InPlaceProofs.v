(* What is read never depends on what the destination held before. *)
From Coq Require Import List NArith ZArith Bool Lia Arith.
From YV Require Import Base.Wire Model.Binary Proofs.BinaryProofs Model.Batch Model.InPlace.
Import ListNotations.
Open Scope N_scope.

Lemma into_n_indep : forall (f : val -> list N -> option (val * list N)) (d : list N -> option (val * list N)),
  (forall old l, f old l = d l) ->
  forall n i olds l, into_n f n i olds l = dec_n d n l.
Proof.
  intros f d H. induction n as [|n IH]; intros i olds l; [reflexivity|].
  cbn [into_n dec_n]. rewrite H. destruct (d l) as [[v r]|]; [|reflexivity]. rewrite IH. reflexivity.
Qed.

Lemma into_fields_indep : forall fs, Forall (fun t => forall old l, read_into t old l = dec t l) fs ->
  forall i olds l, into_fields read_into fs i olds l = dec_fields dec fs l.
Proof.
  induction fs as [|f fs IH]; intros HF i olds l; [reflexivity|].
  inversion HF as [|? ? Hf HF']; subst. cbn [into_fields dec_fields]. rewrite Hf.
  destruct (dec f l) as [[v r]|]; [|reflexivity]. rewrite (IH HF'). reflexivity.
Qed.

Theorem read_into_indep : forall t old l, read_into t old l = dec t l.
Proof.
  apply (ty_ind' (fun t => forall old l, read_into t old l = dec t l)); intros; cbn [read_into dec]; try reflexivity.
  - destruct (vdec l) as [[n r]|]; [|reflexivity]. rewrite (into_n_indep _ (dec t) H). reflexivity.
  - rewrite (into_n_indep _ (dec t) H). reflexivity.
  - destruct (dec_dims (N.to_nat r) l) as [[sh r0]|]; [|reflexivity]. rewrite (into_n_indep _ (dec t) H). reflexivity.
  - rewrite (into_n_indep _ (dec t) H). reflexivity.
  - destruct (vdec l) as [[rk r0]|]; [|reflexivity]. destruct (dec_dims (N.to_nat rk) r0) as [[sh r1]|]; [|reflexivity].
    rewrite (into_n_indep _ (dec t) H). reflexivity.
  - rewrite (into_fields_indep fs H). reflexivity.
Qed.

(* reading a whole stream into one reused variable = reading every item into a fresh one *)
Theorem read_stream_reusing_eq : forall fuel t cbr old l,
  read_stream_reusing fuel t cbr old l = read_items (dec t) fuel cbr l.
Proof.
  induction fuel as [|f IH]; intros t cbr old l; [reflexivity|].
  cbn [read_stream_reusing read_items]. unfold read_block.
  destruct (if cbr =? 0 then vdec l else Some (cbr, l)) as [[c l1]|]; [|reflexivity].
  destruct (c =? 0); [reflexivity|]. rewrite read_into_indep.
  destruct (dec t l1) as [[v l2]|]; [|reflexivity]. rewrite IH. reflexivity.
Qed.
