(* Across the two target languages, at the level of the typed programs: what the generated Python writer emits the generated
   C++ reader reads back, and conversely (unions with at most 127 cases: above that the case index is written differently). *)
From Coq Require Import List NArith ZArith Bool.
From YV Require Import Base.Wire Model.Binary Proofs.BinaryProofs Model.CodedCpp Model.CodedPy Model.CppLayout
  Model.CppTyped Proofs.CppTypedProofs Model.CppReadProg Model.CppTypedRead Proofs.CppTypedReadProofs
  Model.PyTyped Proofs.PyTypedProofs Model.PyReadProg Model.PyTypedRead Proofs.PyTypedReadProofs.
Import ListNotations.
Open Scope N_scope.

Theorem py_writes_cpp_reads : forall t v rest, small_unions t = true -> has_type t v = true -> vsmall v = true ->
  arun_c (cpp_read t) (obytes (py_wops t v) ++ rest) = CVal v rest.
Proof.
  intros t v rest Hu Ht Hs. rewrite (py_wops_bytes t v Ht), (enc_py_eq t Hu v Ht). apply cpp_read_roundtrip; assumption.
Qed.

Theorem cpp_writes_py_reads : forall t v rest, small_unions t = true -> has_type t v = true -> vsmall v = true ->
  arun_p (py_read t) (cbytes (cpp_wops t v) ++ rest) = PVal v rest.
Proof.
  intros t v rest Hu Ht Hs. rewrite (cpp_wops_bytes t v Ht Hs), <- (enc_py_eq t Hu v Ht). apply py_read_roundtrip. assumption.
Qed.
