(* The typed C++ writers over the coded stream: the bytes their calls denote are the encoding of the value - the memcpy fast
   paths included - so, by the refinement of the buffered C++ writer, what reaches the ostream is that encoding for every buffer
   size >= 10. *)
From Coq Require Import List NArith ZArith Bool Lia Arith.
From Coq Require Import ZifyBool ZifyN ZifyNat.
From YV Require Import Base.Wire Proofs.WireProofs Model.Binary Proofs.BinaryProofs Model.CodedCpp Proofs.CodedCppOut
  Model.CppLayout Proofs.CppLayoutProofs Model.CppTyped.
Import ListNotations.
Open Scope N_scope.

Definition cbytes (ops : list wop) : list N := concat (map wbytes ops).

Lemma cbytes_app : forall a b, cbytes (a ++ b) = cbytes a ++ cbytes b.
Proof. intros. unfold cbytes. rewrite map_app, concat_app. reflexivity. Qed.
Lemma cbytes_cons : forall op r, cbytes (op :: r) = wbytes op ++ cbytes r.
Proof. reflexivity. Qed.

(* every length that is written as a 64-bit count fits 64 bits (true of anything a machine can hold) *)
Fixpoint vsmall (v : val) : bool :=
  match v with
  | VStr b => N.of_nat (length b) <? 2 ^ 64
  | VSome x => vsmall x
  | VCase i x => (i + 1 <? 2 ^ 64) && vsmall x
  | VSeq xs => (N.of_nat (length xs) <? 2 ^ 64) && forallb vsmall xs
  | VArr sh xs => (N.of_nat (length sh) <? 2 ^ 64) && forallb (fun d => d <? 2 ^ 64) sh && forallb vsmall xs
  | VMapv kvs => (N.of_nat (length kvs) <? 2 ^ 64) && forallb (fun kv => vsmall (fst kv) && vsmall (snd kv)) kvs
  | _ => true
  end.

Lemma var64 : forall n, n < 2 ^ 64 -> wbytes (WVar 64 n) = venc n.
Proof. intros n H. cbn [wbytes]. rewrite N.mod_small by assumption. reflexivity. Qed.

Lemma cbytes_dims : forall sh, forallb (fun d => d <? 2 ^ 64) sh = true -> cbytes (map (WVar 64) sh) = concat (map venc sh).
Proof.
  induction sh as [|d sh IH]; intros H; [reflexivity|]. cbn [forallb] in H. apply andb_true_iff in H. destruct H as [Hd Hs].
  cbn [map]. rewrite cbytes_cons, var64 by lia. cbn [concat]. rewrite (IH Hs). reflexivity.
Qed.

Lemma cbytes_concat_map : forall (f : val -> list wop) (g : val -> list N) xs,
  Forall (fun x => cbytes (f x) = g x) xs -> cbytes (concat (map f xs)) = concat (map g xs).
Proof.
  intros f g xs H. induction H as [|x xs Hx Hxs IH]; [reflexivity|]. cbn [map concat]. rewrite cbytes_app, Hx, IH. reflexivity.
Qed.

Lemma cint_bytes : forall p z, int_ok p z = true -> cbytes (cpp_int_ops p z) = enc_int p z.
Proof.
  intros p z H. unfold cpp_int_ops, enc_int, int_ok in *. destruct (int_width p) as [[s w]|] eqn:Ew; [|reflexivity].
  assert (Hw : w = 1 \/ w = 8 \/ w = 16 \/ w = 32 \/ w = 64) by (destruct p; cbn in Ew; inversion Ew; subst; lia).
  destruct (w <=? 8) eqn:E8; [cbn; reflexivity|].
  unfold cbytes. cbn [map concat wbytes]. rewrite app_nil_r.
  destruct s.
  - (* signed: zig-zag fits the accumulator *)
    assert (Hr : zz_enc z < 2 ^ w) by (apply zz_enc_range; [lia|assumption]).
    f_equal. destruct (w <=? 32) eqn:E32; apply N.mod_small.
    + assert (2 ^ w <= 2 ^ 32) by (apply N.pow_le_mono_r; lia). lia.
    + assert (2 ^ w <= 2 ^ 64) by (apply N.pow_le_mono_r; lia). lia.
  - unfold in_range_u in H.
    assert (Hr : Z.to_N z < 2 ^ w).
    { assert (Hz : (0 <= z < 2 ^ Z.of_N w)%Z) by lia. rewrite <- (Z2N.id z) in Hz by lia.
      change 2%Z with (Z.of_N 2) in Hz. rewrite <- N2Z.inj_pow in Hz. lia. }
    f_equal. destruct (w <=? 32) eqn:E32; apply N.mod_small.
    + assert (2 ^ w <= 2 ^ 32) by (apply N.pow_le_mono_r; lia). lia.
    + assert (2 ^ w <= 2 ^ 64) by (apply N.pow_le_mono_r; lia). lia.
Qed.

Lemma cprim_bytes : forall p v, prim_ok p v = true -> vsmall v = true -> cbytes (cpp_prim_ops p v) = enc_prim enc_int p v.
Proof.
  intros p v H Hs.
  destruct p; destruct v; cbn [prim_ok] in H; try discriminate; cbn [cpp_prim_ops enc_prim];
    try (apply cint_bytes; assumption); unfold cbytes; cbn [map concat]; rewrite ?app_nil_r; try reflexivity.
  cbn [vsmall] in Hs. rewrite var64 by lia. reflexivity.
Qed.

Definition CB (t : ty) : Prop := forall v, has_type t v = true -> vsmall v = true -> cbytes (cpp_wops t v) = enc t v.

Lemma citems_bytes : forall e xs, CB e -> forallb (has_type e) xs = true -> forallb vsmall xs = true ->
  cbytes (concat (map (cpp_wops e) xs)) = concat (map (enc e) xs).
Proof.
  intros e xs IH H Hs. apply cbytes_concat_map. apply Forall_forall. intros x Hin.
  rewrite forallb_forall in H, Hs. apply IH; [apply H|apply Hs]; exact Hin.
Qed.

Lemma cdata_bytes : forall e xs, CB e -> forallb (has_type e) xs = true -> forallb vsmall xs = true ->
  cbytes (cpp_data e (cpp_wops e) xs) = concat (map (enc e) xs).
Proof.
  intros e xs IH H Hs. unfold cpp_data. destruct (ts true e).
  - unfold cbytes. cbn [map concat wbytes]. rewrite app_nil_r. reflexivity.
  - apply citems_bytes; assumption.
Qed.

Theorem cpp_wops_bytes : forall t, CB t.
Proof.
  apply ty_ind'.
  - intros p v H Hs. cbn [has_type] in H. cbn [cpp_wops]. unfold enc. cbn [enc_with]. apply cprim_bytes; assumption.
  - intros b v H Hs. destruct v; cbn [has_type] in H; try discriminate. cbn [cpp_wops]. unfold enc. cbn [enc_with]. apply cint_bytes. assumption.
  - intros e IH v H Hs. destruct v; cbn [has_type] in H; try discriminate; cbn [cpp_wops]; unfold enc in *; cbn [enc_with].
    + reflexivity.
    + cbn [vsmall] in Hs. rewrite cbytes_cons. cbn [wbytes app]. rewrite (IH v H Hs). reflexivity.
  - intros hn cs IH v H Hs. destruct v; cbn [has_type] in H; try discriminate; cbn [cpp_wops]; unfold enc in *; cbn [enc_with].
    + unfold cbytes. cbn. reflexivity.
    + cbn [vsmall] in Hs. apply andb_true_iff in Hs. destruct Hs as [Hi Hv].
      rewrite cbytes_cons, var64 by (destruct hn; lia). f_equal.
      revert i H Hi. induction IH as [|c cs Hc Hcs IHcs]; intros i H Hi; cbn [pick] in *; [discriminate|].
      destruct (i =? 0) eqn:E0; [apply Hc; assumption|apply IHcs; [assumption|lia]].
  - intros e IH v H Hs. destruct v; cbn [has_type] in H; try discriminate. cbn [cpp_wops vsmall] in *.
    apply andb_true_iff in Hs. destruct Hs as [Hl Hv]. unfold enc in *. cbn [enc_with].
    rewrite cbytes_cons, var64 by lia. f_equal. apply cdata_bytes; assumption.
  - intros n e IH v H Hs. destruct v; cbn [has_type] in H; try discriminate. apply andb_true_iff in H. destruct H as [_ H].
    cbn [cpp_wops vsmall] in *. apply andb_true_iff in Hs. destruct Hs as [_ Hv]. unfold enc in *. cbn [enc_with].
    apply cdata_bytes; assumption.
  - intros r e IH v H Hs. destruct v; cbn [has_type] in H; try discriminate.
    apply andb_true_iff in H. destruct H as [_ H]. cbn [cpp_wops vsmall] in *.
    apply andb_true_iff in Hs. destruct Hs as [Hs Hv]. apply andb_true_iff in Hs. destruct Hs as [_ Hd].
    unfold enc in *. cbn [enc_with]. rewrite cbytes_app, cbytes_dims by assumption. f_equal. apply cdata_bytes; assumption.
  - intros d e IH v H Hs. destruct v; cbn [has_type] in H; try discriminate.
    apply andb_true_iff in H. destruct H as [_ H]. cbn [cpp_wops vsmall] in *.
    apply andb_true_iff in Hs. destruct Hs as [_ Hv]. unfold enc in *. cbn [enc_with]. apply cdata_bytes; assumption.
  - intros e IH v H Hs. destruct v; cbn [has_type] in H; try discriminate.
    apply andb_true_iff in H. destruct H as [_ H]. cbn [cpp_wops vsmall] in *.
    apply andb_true_iff in Hs. destruct Hs as [Hs Hv]. apply andb_true_iff in Hs. destruct Hs as [Hl Hd].
    unfold enc in *. cbn [enc_with]. rewrite cbytes_cons, var64, cbytes_app, cbytes_dims by (assumption || lia).
    f_equal. f_equal. apply cdata_bytes; assumption.
  - intros k e IHk IHe v H Hs. destruct v; cbn [has_type] in H; try discriminate.
    cbn [cpp_wops vsmall] in *. apply andb_true_iff in Hs. destruct Hs as [Hl Hv]. unfold enc in *. cbn [enc_with].
    rewrite cbytes_cons, var64 by lia. f_equal.
    induction kvs as [|[a b] kvs IHl]; [reflexivity|]. cbn [forallb fst snd] in H, Hv.
    apply andb_true_iff in H. destruct H as [H1 H2]. apply andb_true_iff in H1. destruct H1 as [Ha Hb].
    apply andb_true_iff in Hv. destruct Hv as [V1 V2]. apply andb_true_iff in V1. destruct V1 as [Va Vb].
    cbn [map concat fst snd]. rewrite !cbytes_app, (IHk a Ha Va), (IHe b Hb Vb), IHl; [reflexivity|assumption|cbn [length] in Hl; lia|assumption].
  - intros fs IH v H Hs. destruct v; cbn [has_type] in H; try discriminate. cbn [cpp_wops].
    destruct (ts true (TRec fs)).
    + unfold cbytes. cbn [map concat wbytes]. rewrite app_nil_r. reflexivity.
    + cbn [vsmall] in Hs. apply andb_true_iff in Hs. destruct Hs as [_ Hv]. unfold enc in *. cbn [enc_with].
      revert vs H Hv. induction IH as [|f fs Hf Hfs IHfs]; intros vs H Hv; destruct vs as [|x xs]; cbn [all2] in H; try discriminate;
        cbn [cops_fields enc_fields]; [reflexivity|].
      apply andb_true_iff in H. destruct H as [Hx Hxs]. cbn [forallb] in Hv. apply andb_true_iff in Hv. destruct Hv as [Vx Vxs].
      rewrite cbytes_app, (Hf x Hx Vx), (IHfs xs Hxs Vxs). reflexivity.
Qed.

(* all the operations are within the contract of the buffered writer (varint accumulators of 32 or 64 bits) *)
Lemma cpp_wops_ok : forall b t v, Forall (wop_ok b) (cpp_wops t v).
Proof.
  intros b. assert (Hi : forall p z, Forall (wop_ok b) (cpp_int_ops p z)).
  { intros p z. unfold cpp_int_ops. destruct (int_width p) as [[s w]|]; [|constructor].
    destruct (w <=? 8); [repeat constructor|]. constructor; [|constructor]. cbn. destruct (w <=? 32); lia. }
  assert (Hcat : forall (f : val -> list wop) xs, (forall x, Forall (wop_ok b) (f x)) -> Forall (wop_ok b) (concat (map f xs))).
  { intros f xs H. induction xs as [|x xs IH]; [constructor|]. cbn [map concat]. apply Forall_app. split; [apply H|assumption]. }
  assert (Hd : forall sh, Forall (wop_ok b) (map (WVar 64) sh)).
  { induction sh as [|d sh IH]; [constructor|]. constructor; [cbn; lia|assumption]. }
  assert (Hdata : forall e f xs, (forall x, Forall (wop_ok b) (f x)) -> Forall (wop_ok b) (cpp_data e f xs)).
  { intros e f xs H. unfold cpp_data. destruct (ts true e); [repeat constructor|apply Hcat; assumption]. }
  apply (ty_ind' (fun t => forall v, Forall (wop_ok b) (cpp_wops t v))).
  - intros p v. cbn [cpp_wops]. destruct p; destruct v; cbn [cpp_prim_ops]; try apply Hi; repeat constructor; cbn; lia.
  - intros p v. destruct v; cbn [cpp_wops]; try constructor. apply Hi.
  - intros e IH v. destruct v; cbn [cpp_wops]; repeat constructor. apply IH.
  - intros hn cs IH v. destruct v; cbn [cpp_wops]; try constructor; try (cbn; lia); try constructor.
    revert i. induction IH as [|c cs Hc Hcs IHcs]; intros i; cbn [pick]; [constructor|]. destruct (i =? 0); [apply Hc|apply IHcs].
  - intros e IH v. destruct v; cbn [cpp_wops]; try constructor; [cbn; lia|]. apply Hdata. assumption.
  - intros n e IH v. destruct v; cbn [cpp_wops]; try constructor. apply Hdata. assumption.
  - intros r e IH v. destruct v; cbn [cpp_wops]; try constructor. apply Forall_app. split; [apply Hd|apply Hdata; assumption].
  - intros d e IH v. destruct v; cbn [cpp_wops]; try constructor. apply Hdata. assumption.
  - intros e IH v. destruct v; cbn [cpp_wops]; try constructor; [cbn; lia|]. apply Forall_app. split; [apply Hd|apply Hdata; assumption].
  - intros k e IHk IHe v. destruct v; cbn [cpp_wops]; try constructor; [cbn; lia|].
    induction kvs as [|[a c] kvs IHl]; [constructor|]. cbn [map concat fst snd]. apply Forall_app. split; [|assumption].
    apply Forall_app. split; [apply IHk|apply IHe].
  - intros fs IH v. destruct v; cbn [cpp_wops]; try constructor. destruct (ts true (TRec fs)); [repeat constructor|].
    revert vs. induction IH as [|f fs Hf Hfs IHfs]; intros vs; destruct vs as [|x xs]; cbn [cops_fields]; try constructor.
    apply Forall_app. split; [apply Hf|apply IHfs].
Qed.

(* END TO END for the C++ writer: typed layer (fast paths included) -> CodedOutputStream of any buffer size >= 10 -> the
   bytes handed to the ostream are the encoding of the value *)
Theorem cpp_typed_writer_bytes : forall bufsize t v, (10 <= bufsize)%nat -> has_type t v = true -> vsmall v = true ->
  exists chunks, wfinish bufsize (cpp_wops t v) = Ok chunks /\ concat chunks = enc t v.
Proof.
  intros bufsize t v Hb Ht Hs.
  destruct (cpp_writer_refines bufsize (cpp_wops t v) Hb (cpp_wops_ok bufsize t v)) as [ch [E C]].
  exists ch. split; [assumption|]. rewrite C. apply (cpp_wops_bytes t v Ht Hs).
Qed.
