(* The documented JSON mapping is unambiguous: corollaries of JsonProofs.of_json_to_json and read_write_lines_start stated
   about the WRITER alone.  Two well-typed values of one valid type never share a document (so in particular the written form
   of a union - tagged or untagged, as Gen.Tables decides - always identifies the active case, null is never confused with a
   present value, and an omitted optional field is never confused with a present one), and two accepted write histories of one
   protocol never share a line stream. *)
From Coq Require Import List NArith ZArith Bool.
From YV Require Import Base.Wire Model.Binary Gen.Tables Model.Json Proofs.JsonProofs.
Import ListNotations.
Open Scope N_scope.

Theorem to_json_inj : forall t, jty_ok t = true -> forall v1 v2,
  jhas_type t v1 = true -> jhas_type t v2 = true -> to_json t v1 = to_json t v2 -> v1 = v2.
Proof.
  intros t Ht v1 v2 H1 H2 H.
  pose proof (of_json_to_json t Ht v1 H1) as D1. rewrite H, (of_json_to_json t Ht v2 H2) in D1.
  inversion D1. reflexivity.
Qed.

Theorem write_lines_inj : forall p ws1 ws2,
  jproto_ok p = true -> jwrites_ok p ws1 = true -> jwrites_ok p ws2 = true ->
  write_lines p ws1 = write_lines p ws2 -> ws1 = ws2.
Proof.
  intros p ws1 ws2 Hp H1 H2 H.
  destruct (read_write_lines_start p ws1 Hp H1) as [s1 [D1 _]].
  destruct (read_write_lines_start p ws2 Hp H2) as [s2 [D2 _]].
  rewrite H, D2 in D1. inversion D1. reflexivity.
Qed.

Print Assumptions to_json_inj.
Print Assumptions write_lines_inj.
