(* The typed Python reader program reads back what the typed Python writer wrote: over byte lists, and (by the generic
   refinement of reader programs) over the buffered stream for every buffer size. *)
From Coq Require Import List NArith ZArith Bool Lia Arith.
From Coq Require Import ZifyBool ZifyN ZifyNat.
From YV Require Import Base.Wire Proofs.WireProofs Model.Binary Proofs.BinaryProofs Model.CodedCpp Proofs.CodedCppIn
  Model.CodedPy Proofs.CodedPyIn Proofs.CodedPyOut Proofs.CodedPyRoundtrip Model.PyTyped Proofs.PyTypedProofs
  Model.PyReadProg Proofs.PyReadProofs Model.PyTypedRead.
Import ListNotations.
Open Scope N_scope.

Lemma arun_bind : forall A B (p : rprog A) (f : A -> rprog B) l,
  arun_p (bind p f) l = match arun_p p l with PVal a r => arun_p (f a) r | PEnd => PEnd | PBad => PBad end.
Proof.
  intros A B p f. induction p as [a| |op k IH]; intros l; cbn [bind arun_p]; try reflexivity.
  destruct (pastep l op) as [[v r]|]; [apply IH|reflexivity].
Qed.

Lemma arun_rep : forall (p : rprog val) (g : val -> list N) xs,
  (forall x, In x xs -> forall rest, arun_p p (g x ++ rest) = PVal x rest) ->
  forall rest, arun_p (rep (length xs) p) (concat (map g xs) ++ rest) = PVal xs rest.
Proof.
  intros p g xs. induction xs as [|x xs IH]; intros H rest; [reflexivity|].
  cbn [length rep map concat]. rewrite <- app_assoc, arun_bind, (H x (or_introl eq_refl)).
  rewrite arun_bind, IH by (intros y Hy; apply H; right; exact Hy). reflexivity.
Qed.

(* ---------- single operations ---------- *)
Lemma run_byte : forall A (k : N -> rprog A) b r, arun_p (rd_byte k) (b :: r) = arun_p (k b) r.
Proof. reflexivity. Qed.

Lemma run_var : forall A (k : N -> rprog A) n r, arun_p (rd_var k) (venc n ++ r) = arun_p (k n) r.
Proof. intros. unfold rd_var. cbn [arun_p pastep]. rewrite pvdec_venc. reflexivity. Qed.

Lemma run_fixed : forall A (k : N -> rprog A) w n r, n < 256 ^ N.of_nat w ->
  arun_p (rd_fixed w k) (le_enc w n ++ r) = arun_p (k n) r.
Proof. intros A k w n r H. unfold rd_fixed. cbn [arun_p pastep]. rewrite take_le_enc, le_dec_enc by assumption. reflexivity. Qed.

Lemma run_bytes : forall A (k : list N -> rprog A) l r, arun_p (rd_bytes (N.of_nat (length l)) k) (l ++ r) = arun_p (k l) r.
Proof. intros. unfold rd_bytes. cbn [arun_p pastep]. rewrite take_app. reflexivity. Qed.

Lemma run_dims : forall sh rest,
  arun_p (rep (length sh) (rd_var (fun d => RRet d))) (concat (map venc sh) ++ rest) = PVal sh rest.
Proof.
  induction sh as [|d sh IH]; intros rest; [reflexivity|].
  cbn [length rep map concat]. rewrite <- app_assoc, arun_bind, run_var. cbn [arun_p]. rewrite arun_bind, IH. reflexivity.
Qed.

(* ---------- integers and other primitives ---------- *)
Lemma read_int_ok : forall p z rest, int_ok p z = true -> arun_p (py_read_int p) (enc_int p z ++ rest) = PVal (VInt z) rest.
Proof.
  intros p z rest H. unfold int_ok, py_read_int, enc_int in *.
  destruct (int_width p) as [[s w]|] eqn:Ew; [|discriminate].
  assert (Hw : w = 1 \/ w = 8 \/ w = 16 \/ w = 32 \/ w = 64).
  { destruct p; cbn in Ew; inversion Ew; subst; lia. }
  destruct (w <=? 8) eqn:E8.
  - assert (Hlt : to_unsigned 8 z < 256 ^ N.of_nat 1) by (change (256 ^ N.of_nat 1) with 256; apply to_unsigned_8_lt).
    replace [to_unsigned 8 z] with (le_enc 1 (to_unsigned 8 z)) by (apply le_enc_1, to_unsigned_8_lt).
    rewrite run_fixed by exact Hlt. cbn [arun_p]. destruct s.
    + assert (w = 8) by (destruct p; cbn in Ew; inversion Ew; subst; lia). subst w.
      unfold in_range_s in H. change (2 ^ (Z.of_N 8 - 1))%Z with 128%Z in H.
      rewrite to_signed_unsigned_8 by lia. reflexivity.
    + unfold in_range_u in H.
      assert (Hz : (0 <= z < 256)%Z).
      { destruct Hw as [->|[->|Hw]]; [change (2 ^ Z.of_N 1)%Z with 2%Z in H; lia
                                     |change (2 ^ Z.of_N 8)%Z with 256%Z in H; lia|lia]. }
      rewrite to_unsigned_small by lia. rewrite Z2N.id by lia. reflexivity.
  - destruct s; rewrite run_var; cbn [arun_p].
    + rewrite zz_dec_enc. reflexivity.
    + unfold in_range_u in H. rewrite Z2N.id by lia. reflexivity.
Qed.

Lemma split_mod : forall a x y, x < 2 ^ a -> (x + 2 ^ a * y) mod 2 ^ a = x /\ (x + 2 ^ a * y) / 2 ^ a = y.
Proof.
  intros a x y H. assert (Hp : 2 ^ a <> 0) by (apply N.pow_nonzero; lia).
  replace (x + 2 ^ a * y) with (x + y * 2 ^ a) by lia. split.
  - rewrite N.mod_add by assumption. apply N.mod_small. assumption.
  - rewrite N.div_add by assumption. rewrite N.div_small by assumption. lia.
Qed.

Lemma read_prim_ok : forall p v rest, prim_ok p v = true ->
  arun_p (py_read_prim p) (enc_prim enc_int p v ++ rest) = PVal v rest.
Proof.
  intros p v rest H.
  destruct p; destruct v; cbn [prim_ok] in H; try discriminate; cbn [py_read_prim enc_prim];
    try (apply read_int_ok; assumption).
  - (* float32 *) rewrite run_fixed by (change (256 ^ N.of_nat 4) with (2 ^ 32); lia). reflexivity.
  - (* float64 *) rewrite run_fixed by (change (256 ^ N.of_nat 8) with (2 ^ 64); lia). reflexivity.
  - (* complexfloat32 *) apply andb_true_iff in H. destruct H as [H1 H2].
    change (2 ^ 32) with (256 ^ N.of_nat 4) in *.
    rewrite <- (le_enc_split 4 4 re im) by lia. change (4 + 4)%nat with 8%nat.
    rewrite run_fixed.
    + cbn [arun_p]. change (256 ^ N.of_nat 4) with (2 ^ 32) in *.
      destruct (split_mod 32 re im ltac:(lia)) as [-> ->]. reflexivity.
    + change (256 ^ N.of_nat 8) with (2 ^ 32 * 2 ^ 32). change (256 ^ N.of_nat 4) with (2 ^ 32) in *. nia.
  - (* complexfloat64 *) apply andb_true_iff in H. destruct H as [H1 H2].
    change (2 ^ 64) with (256 ^ N.of_nat 8) in *.
    rewrite <- (le_enc_split 8 8 re im) by lia. change (8 + 8)%nat with 16%nat.
    rewrite run_fixed.
    + cbn [arun_p]. change (256 ^ N.of_nat 8) with (2 ^ 64) in *.
      destruct (split_mod 64 re im ltac:(lia)) as [-> ->]. reflexivity.
    + change (256 ^ N.of_nat 16) with (2 ^ 64 * 2 ^ 64). change (256 ^ N.of_nat 8) with (2 ^ 64) in *. nia.
  - (* string *) rewrite <- app_assoc, run_var, run_bytes. reflexivity.
Qed.

(* ---------- sizes of trivially serializable values (the fast path of arrays) ---------- *)
Definition LEN (e : ty) : Prop := forall x s a p, py_ts e = true -> has_type e x = true ->
  np_layout e = Some (s, a, p) -> N.of_nat (length (enc_py e x)) = p.

Lemma len_concat_const : forall (f : val -> list N) xs p,
  (forall x, In x xs -> N.of_nat (length (f x)) = p) -> N.of_nat (length (concat (map f xs))) = N.of_nat (length xs) * p.
Proof.
  intros f xs p H. induction xs as [|x xs IH]; [cbn; lia|].
  cbn [map concat length]. rewrite app_length. rewrite Nat2N.inj_add, (H x (or_introl eq_refl)), IH, Nat2N.inj_succ by (intros y Hy; apply H; right; exact Hy). lia.
Qed.

Lemma LEN_items : forall e xs s a p, LEN e -> py_ts e = true -> forallb (has_type e) xs = true ->
  np_layout e = Some (s, a, p) -> N.of_nat (length (concat (map (enc_py e) xs))) = N.of_nat (length xs) * p.
Proof.
  intros e xs s a p IH Hts Hall Hl. apply len_concat_const. intros x Hin.
  rewrite forallb_forall in Hall. exact (IH x s a p Hts (Hall x Hin) Hl).
Qed.

Lemma np_fields_packed : forall fs xs off al pk e al' p,
  Forall LEN fs -> forallb py_ts fs = true -> all2 has_type fs xs = true ->
  np_fields np_layout fs off al pk = Some (e, al', p) ->
  pk + N.of_nat (length (enc_fields enc_py fs xs)) = p.
Proof.
  induction fs as [|t r IH]; intros xs off al pk e al' p HL Hts Hty Hn.
  - cbn [np_fields] in Hn. injection Hn as <- <- <-. destruct xs; cbn [all2] in Hty; [|discriminate]. cbn. lia.
  - inversion HL as [|? ? Ht Hr]; subst. cbn [forallb] in Hts. apply andb_true_iff in Hts. destruct Hts as [T1 T2].
    destruct xs as [|x xr]; cbn [all2] in Hty; [discriminate|]. apply andb_true_iff in Hty. destruct Hty as [Hx Hxr].
    cbn [np_fields] in Hn. destruct (np_layout t) as [[[s a] p0]|] eqn:El; [|discriminate].
    cbn [enc_fields]. rewrite app_length, Nat2N.inj_add, (Ht x s a p0 T1 Hx El).
    rewrite <- (IH xr _ _ _ _ _ _ Hr T2 Hxr Hn). lia.
Qed.

Theorem LEN_all : forall t, LEN t.
Proof.
  apply ty_ind'.
  - intros p. unfold LEN. intros x s a pk Hts Hty Hl. cbn [has_type] in Hty. unfold enc_py. cbn [enc_with].
    destruct p; cbn [py_ts] in Hts; try discriminate; cbn [np_layout] in Hl; injection Hl as <- <- <-;
      destruct x; cbn [prim_ok] in Hty; try discriminate; cbn [enc_prim];
      rewrite ?app_length, ?le_enc_length; try reflexivity; unfold enc_int; cbn; reflexivity.
  - intros b. unfold LEN. intros x s a pk Hts Hty Hl. destruct x; cbn [has_type] in Hty; try discriminate. unfold enc_py. cbn [enc_with].
    destruct b; cbn [py_ts] in Hts; try discriminate; cbn [np_layout] in Hl; injection Hl as <- <- <-; unfold enc_int; cbn; reflexivity.
  - intros e _. unfold LEN. intros x s a pk H. discriminate.
  - intros hn cs _. unfold LEN. intros x s a pk H. discriminate.
  - intros e _. unfold LEN. intros x s a pk H. discriminate.
  - intros n e IH. unfold LEN. intros x s a pk Hts Hty Hl. cbn [py_ts] in Hts. destruct x; cbn [has_type] in Hty; try discriminate.
    apply andb_true_iff in Hty. destruct Hty as [Hn Hall]. cbn [np_layout] in Hl.
    destruct (np_layout e) as [[[s0 a0] p0]|] eqn:El; [|discriminate]. injection Hl as <- <- <-.
    change (enc_py (TFixVec n e) (VSeq vs)) with (concat (map (enc_py e) vs)).
    rewrite (LEN_items e vs s0 a0 p0 IH Hts Hall El). lia.
  - intros r e _. unfold LEN. intros x s a pk H. discriminate.
  - intros d e IH. unfold LEN. intros x s a pk Hts Hty Hl. cbn [py_ts] in Hts. destruct x; cbn [has_type] in Hty; try discriminate.
    apply andb_true_iff in Hty. destruct Hty as [Hty Hall]. apply andb_true_iff in Hty. destruct Hty as [Hsh Hn].
    apply list_eq_N_eq in Hsh. subst shape. cbn [np_layout] in Hl.
    destruct (np_layout e) as [[[s0 a0] p0]|] eqn:El; [|discriminate]. injection Hl as <- <- <-.
    change (enc_py (TFixArr d e) (VArr d vs)) with (concat (map (enc_py e) vs)).
    rewrite (LEN_items e vs s0 a0 p0 IH Hts Hall El). lia.
  - intros e _. unfold LEN. intros x s a pk H. discriminate.
  - intros k e _ _. unfold LEN. intros x s a pk H. discriminate.
  - intros fs IH. unfold LEN. intros x s a pk Hts Hty Hl. cbn [py_ts] in Hts. destruct x; cbn [has_type] in Hty; try discriminate.
    cbn [np_layout] in Hl. destruct (np_fields np_layout fs 0 1 0) as [[[e al] p0]|] eqn:En; [|discriminate].
    injection Hl as <- <- <-. change (enc_py (TRec fs) (VSeq vs)) with (enc_fields enc_py fs vs).
    pose proof (np_fields_packed fs vs 0 1 0 e al p0 IH Hts Hty En) as H. lia.
Qed.

(* ---------- the round trip of the typed reader program ---------- *)
Definition RT (t : ty) : Prop := forall v rest, has_type t v = true -> arun_p (py_read t) (enc_py t v ++ rest) = PVal v rest.

Lemma items_rt : forall e xs rest, RT e -> forallb (has_type e) xs = true ->
  arun_p (rep (length xs) (py_read e)) (concat (map (enc_py e) xs) ++ rest) = PVal xs rest.
Proof.
  intros e xs rest IH H. apply arun_rep. intros x Hin r. rewrite forallb_forall in H. apply IH, H, Hin.
Qed.

Lemma data_rt : forall e xs count rest, RT e -> forallb (has_type e) xs = true -> N.of_nat (length xs) = count ->
  arun_p (read_data e (py_read e) count) (concat (map (enc_py e) xs) ++ rest) = PVal xs rest.
Proof.
  intros e xs count rest IH Hall Hc. unfold read_data. subst count. rewrite Nat2N.id.
  destruct (py_fast e) eqn:Ef; [|apply items_rt; assumption].
  unfold py_fast in Ef. apply andb_true_iff in Ef. destruct Ef as [Hts Hs].
  destruct (np_layout e) as [[[s a] p]|] eqn:El; [|discriminate]. apply N.eqb_eq in Hs. subst p.
  pose proof (LEN_items e xs s a s (LEN_all e) Hts Hall El) as Hlen.
  rewrite <- Hlen, run_bytes.
  pose proof (items_rt e xs [] IH Hall) as H. rewrite app_nil_r in H. rewrite H. reflexivity.
Qed.

(* unfolding equations of the Python encoding *)
Lemma epy_prim : forall p v, enc_py (TPrim p) v = enc_prim enc_int p v. Proof. reflexivity. Qed.
Lemma epy_enum : forall b z, enc_py (TEnum b) (VInt z) = enc_int b z. Proof. reflexivity. Qed.
Lemma epy_none : forall e, enc_py (TOpt e) VNone = [0]. Proof. reflexivity. Qed.
Lemma epy_some : forall e x, enc_py (TOpt e) (VSome x) = 1 :: enc_py e x. Proof. reflexivity. Qed.
Lemma epy_unone : forall hn cs, enc_py (TUnion hn cs) VNone = [0]. Proof. reflexivity. Qed.
Lemma epy_case : forall hn cs i x, enc_py (TUnion hn cs) (VCase i x) =
  [i + if hn then 1 else 0] ++ pick (fun c => enc_py c x) [] cs i. Proof. reflexivity. Qed.
Lemma epy_vec : forall e xs, enc_py (TVec e) (VSeq xs) = venc (N.of_nat (length xs)) ++ concat (map (enc_py e) xs). Proof. reflexivity. Qed.
Lemma epy_fixvec : forall n e xs, enc_py (TFixVec n e) (VSeq xs) = concat (map (enc_py e) xs). Proof. reflexivity. Qed.
Lemma epy_arr : forall r e sh xs, enc_py (TArr r e) (VArr sh xs) = concat (map venc sh) ++ concat (map (enc_py e) xs). Proof. reflexivity. Qed.
Lemma epy_fixarr : forall d e sh xs, enc_py (TFixArr d e) (VArr sh xs) = concat (map (enc_py e) xs). Proof. reflexivity. Qed.
Lemma epy_dynarr : forall e sh xs, enc_py (TDynArr e) (VArr sh xs) =
  venc (N.of_nat (length sh)) ++ concat (map venc sh) ++ concat (map (enc_py e) xs). Proof. reflexivity. Qed.
Lemma epy_map : forall k e kvs, enc_py (TMap k e) (VMapv kvs) =
  venc (N.of_nat (length kvs)) ++ concat (map (fun kv => enc_py k (fst kv) ++ enc_py e (snd kv)) kvs). Proof. reflexivity. Qed.
Lemma epy_rec : forall fs xs, enc_py (TRec fs) (VSeq xs) = enc_fields enc_py fs xs. Proof. reflexivity. Qed.

Theorem py_read_roundtrip : forall t, RT t.
Proof.
  apply ty_ind'.
  - intros p v rest H. cbn [has_type] in H. cbn [py_read]. rewrite epy_prim. apply read_prim_ok. assumption.
  - intros b v rest H. destruct v; cbn [has_type] in H; try discriminate. cbn [py_read]. rewrite epy_enum.
    apply read_int_ok. assumption.
  - intros e IH v rest H. destruct v; cbn [has_type] in H; try discriminate; cbn [py_read].
    + rewrite epy_none. cbn [app]. rewrite run_byte. reflexivity.
    + rewrite epy_some. cbn [app]. rewrite run_byte. cbn [N.eqb]. rewrite arun_bind, (IH v rest H). reflexivity.
  - intros hn cs IH v rest H. destruct v; cbn [has_type] in H; try discriminate; cbn [py_read].
    + subst hn. rewrite epy_unone. cbn [app]. rewrite run_byte. reflexivity.
    + rewrite epy_case. cbn [app]. rewrite run_byte.
      assert (E0 : (hn && (i + (if hn then 1 else 0) =? 0)) = false) by (destruct hn; cbn; lia).
      rewrite E0. replace (i + (if hn then 1 else 0) - (if hn then 1 else 0)) with i by (destruct hn; lia).
      rewrite arun_bind.
      assert (Hp : arun_p (pick (fun c => py_read c) RFail cs i) (pick (fun c => enc_py c v) [] cs i ++ rest) = PVal v rest).
      { clear E0. revert i H. induction IH as [|c cs Hc Hcs IHcs]; intros i H; cbn [pick] in *; [discriminate|].
        destruct (i =? 0); [apply Hc; assumption|apply IHcs; assumption]. }
      rewrite Hp. reflexivity.
  - intros e IH v rest H. destruct v; cbn [has_type] in H; try discriminate. cbn [py_read]. rewrite epy_vec.
    rewrite <- app_assoc, run_var, Nat2N.id, arun_bind, (items_rt e vs rest IH H). reflexivity.
  - intros n e IH v rest H. destruct v; cbn [has_type] in H; try discriminate. apply andb_true_iff in H. destruct H as [Hn H].
    cbn [py_read]. rewrite epy_fixvec. apply N.eqb_eq in Hn. subst n. rewrite Nat2N.id.
    rewrite arun_bind, (items_rt e vs rest IH H). reflexivity.
  - intros r e IH v rest H. destruct v; cbn [has_type] in H; try discriminate.
    apply andb_true_iff in H. destruct H as [H Hall]. apply andb_true_iff in H. destruct H as [Hr Hn].
    apply N.eqb_eq in Hr. apply N.eqb_eq in Hn. subst r.
    cbn [py_read]. rewrite epy_arr. rewrite Nat2N.id, <- app_assoc, arun_bind, run_dims, arun_bind.
    rewrite (data_rt e vs (prodN shape) rest IH Hall Hn). reflexivity.
  - intros d e IH v rest H. destruct v; cbn [has_type] in H; try discriminate.
    apply andb_true_iff in H. destruct H as [H Hall]. apply andb_true_iff in H. destruct H as [Hsh Hn].
    apply list_eq_N_eq in Hsh. subst shape. apply N.eqb_eq in Hn.
    cbn [py_read]. rewrite epy_fixarr. rewrite arun_bind.
    rewrite (data_rt e vs (prodN d) rest IH Hall Hn). reflexivity.
  - intros e IH v rest H. destruct v; cbn [has_type] in H; try discriminate.
    apply andb_true_iff in H. destruct H as [Hn Hall]. apply N.eqb_eq in Hn.
    cbn [py_read]. rewrite epy_dynarr. rewrite <- !app_assoc, run_var, Nat2N.id, arun_bind, run_dims, arun_bind.
    rewrite (data_rt e vs (prodN shape) rest IH Hall Hn). reflexivity.
  - intros k e IHk IHe v rest H. destruct v; cbn [has_type] in H; try discriminate.
    cbn [py_read]. rewrite epy_map. rewrite <- app_assoc, run_var, Nat2N.id, arun_bind.
    assert (Hm : arun_p (rep (length kvs) (bind (py_read k) (fun a => bind (py_read e) (fun b => RRet (a, b)))))
                   (concat (map (fun kv => enc_py k (fst kv) ++ enc_py e (snd kv)) kvs) ++ rest) = PVal kvs rest).
    { clear - IHk IHe H. revert rest. induction kvs as [|[a b] kvs IHl]; intros rest; [reflexivity|].
      cbn [forallb fst snd] in H. apply andb_true_iff in H. destruct H as [H1 H2]. apply andb_true_iff in H1. destruct H1 as [Ha Hb].
      cbn [length rep map concat fst snd]. rewrite <- !app_assoc, !arun_bind, (IHk a _ Ha), arun_bind, (IHe b _ Hb).
      cbn [arun_p]. rewrite arun_bind, (IHl H2). reflexivity. }
    rewrite Hm. reflexivity.
  - intros fs IH v rest H. destruct v; cbn [has_type] in H; try discriminate.
    cbn [py_read]. rewrite epy_rec. rewrite arun_bind.
    assert (Hf : arun_p (read_fields py_read fs) (enc_fields enc_py fs vs ++ rest) = PVal vs rest).
    { revert vs rest H. induction IH as [|f fs Hf Hfs IHfs]; intros vs rest H; destruct vs as [|x xs]; cbn [all2] in H; try discriminate;
        cbn [read_fields enc_fields]; [reflexivity|].
      apply andb_true_iff in H. destruct H as [Hx Hxs]. rewrite <- app_assoc, arun_bind, (Hf x _ Hx), arun_bind, (IHfs xs rest Hxs). reflexivity. }
    rewrite Hf. reflexivity.
Qed.

(* ---------- stream steps: however the items were grouped into blocks, the reader yields the items ---------- *)
Theorem py_read_stream_roundtrip : forall t blocks fuel rest,
  forallb (fun b => nonempty b && forallb (has_type t) b) blocks = true -> (length blocks < fuel)%nat ->
  arun_p (py_read_stream fuel t) (concat (map (py_block t) blocks) ++ [0] ++ rest) = PVal (concat blocks) rest.
Proof.
  intros t blocks. induction blocks as [|b blocks IH]; intros fuel rest H Hf; (destruct fuel as [|fuel]; [cbn in Hf; lia|]).
  - cbn [map concat app py_read_stream]. change (0 :: rest) with (venc 0 ++ rest). rewrite run_var. reflexivity.
  - cbn [forallb] in H. apply andb_true_iff in H. destruct H as [Hb Hbs]. apply andb_true_iff in Hb. destruct Hb as [Hne Hty].
    cbn [map concat py_read_stream]. unfold py_block at 1. rewrite <- !app_assoc, run_var.
    assert (En : (N.of_nat (length b) =? 0) = false) by (destruct b; [discriminate|cbn [length]; lia]).
    rewrite En, Nat2N.id, arun_bind.
    rewrite (items_rt t b _ (py_read_roundtrip t) Hty), arun_bind.
    cbn [length] in Hf. rewrite (IH fuel rest Hbs ltac:(lia)). reflexivity.
Qed.

Definition batch_items (b : py_batch) : list val := match b with BList xs | BIter xs => xs end.

Lemma concat_filter_nonempty : forall (l : list (list val)), concat (filter nonempty l) = concat l.
Proof. induction l as [|x l IH]; [reflexivity|]. destruct x; cbn [filter nonempty concat app]; [assumption|]. rewrite IH. reflexivity. Qed.

Lemma concat_blocks_of : forall bs, concat (blocks_of bs) = concat (map batch_items bs).
Proof.
  induction bs as [|b bs IH]; [reflexivity|]. unfold blocks_of in *. cbn [map concat]. rewrite concat_app, IH. f_equal.
  destruct b as [xs|xs]; cbn [batch_items concat]; [apply app_nil_r|].
  induction xs as [|x xs IHx]; [reflexivity|]. cbn [map concat app]. rewrite IHx. reflexivity.
Qed.

(* what the Python writer emits for a stream step written in ANY grouping of lists and iterables (empty ones included) is
   read back by the Python reader as the items in order: the grouping is not observable *)
Theorem py_stream_any_grouping : forall t bs fuel rest,
  forallb (fun b => forallb (has_type t) (batch_items b)) bs = true -> (length (blocks_of bs) < fuel)%nat ->
  arun_p (py_read_stream fuel t) (obytes (py_stream_ops t bs) ++ rest) = PVal (concat (map batch_items bs)) rest.
Proof.
  intros t bs fuel rest H Hf.
  assert (H' : forallb (fun b => match b with BList xs | BIter xs => forallb (has_type t) xs end) bs = true).
  { rewrite forallb_forall in *. intros b Hb. specialize (H b Hb). destruct b; exact H. }
  rewrite (py_stream_bytes t bs H'), <- app_assoc.
  rewrite py_read_stream_roundtrip.
  - rewrite concat_filter_nonempty, concat_blocks_of. reflexivity.
  - rewrite forallb_forall. intros b Hb. apply filter_In in Hb. destruct Hb as [Hin Hne]. rewrite Hne. cbn [andb].
    unfold blocks_of in Hin. apply in_concat in Hin. destruct Hin as [l [Hl Hbl]]. apply in_map_iff in Hl. destruct Hl as [bb [<- Hbb]].
    rewrite forallb_forall in H. specialize (H bb Hbb). destruct bb as [xs|xs]; cbn [batch_items] in H.
    + destruct Hbl as [<-|[]]. exact H.
    + apply in_map_iff in Hbl. destruct Hbl as [x [<- Hx]]. cbn [forallb]. rewrite forallb_forall in H. rewrite (H x Hx). reflexivity.
  - assert (Hl : forall (l : list (list val)), (length (filter nonempty l) <= length l)%nat).
    { induction l as [|x l IHl]; [cbn; lia|]. cbn [filter]. destruct (nonempty x); cbn [length]; lia. }
    pose proof (Hl (blocks_of bs)). lia.
Qed.

(* ---------- every fixed-size read of the typed reader fits a buffer of 16 bytes ---------- *)
Lemma ok_bind : forall A B b (p : rprog A) (f : A -> rprog B), prog_ok b p -> (forall a, prog_ok b (f a)) -> prog_ok b (bind p f).
Proof.
  intros A B b p f. induction p as [a| |op k IH]; intros Hp Hf; cbn [bind prog_ok] in *; auto.
  destruct Hp as [H1 H2]. split; [assumption|]. intros v. apply IH; [apply H2|assumption].
Qed.

Lemma ok_rep : forall A b n (p : rprog A), prog_ok b p -> prog_ok b (rep n p).
Proof.
  intros A b n p Hp. induction n as [|n IH]; cbn [rep prog_ok]; [exact I|].
  apply ok_bind; [assumption|]. intros a. apply ok_bind; [assumption|]. intros l. exact I.
Qed.

Lemma ok_rd_var : forall A b (k : N -> rprog A), (forall n, prog_ok b (k n)) -> prog_ok b (rd_var k).
Proof. intros A b k H. cbn. split; [exact I|]. intros v. destruct v; cbn; auto. Qed.
Lemma ok_rd_byte : forall A b (k : N -> rprog A), (forall n, prog_ok b (k n)) -> prog_ok b (rd_byte k).
Proof. intros A b k H. cbn. split; [exact I|]. intros v. destruct v; cbn; auto. Qed.
Lemma ok_rd_fixed : forall A b w (k : N -> rprog A), (w <= b)%nat -> (forall n, prog_ok b (k n)) -> prog_ok b (rd_fixed w k).
Proof. intros A b w k Hw H. cbn. split; [exact Hw|]. intros v. destruct v; cbn; auto. Qed.
Lemma ok_rd_bytes : forall A b n (k : list N -> rprog A), (forall l, prog_ok b (k l)) -> prog_ok b (rd_bytes n k).
Proof. intros A b n k H. cbn. split; [exact I|]. intros v. destruct v; cbn; auto. Qed.

Lemma ok_read_int : forall b p, (16 <= b)%nat -> prog_ok b (py_read_int p).
Proof.
  intros b p Hb. unfold py_read_int. destruct (int_width p) as [[s w]|]; [|exact I].
  destruct (w <=? 8); [apply ok_rd_fixed; [lia|intros; exact I]|apply ok_rd_var; intros; exact I].
Qed.

Lemma ok_read_data : forall b e rd count, prog_ok b rd -> prog_ok b (read_data e rd count).
Proof.
  intros b e rd count H. unfold read_data. destruct (py_fast e); [|apply ok_rep; assumption].
  destruct (np_layout e) as [[[s a] p]|]; [|exact I]. apply ok_rd_bytes. intros l.
  destruct (arun_p (rep (N.to_nat count) rd) l) as [xs [|? ?]| |]; exact I.
Qed.

Theorem py_read_ok : forall b t, (16 <= b)%nat -> prog_ok b (py_read t).
Proof.
  intros b t Hb. revert t. apply ty_ind'.
  - intros p. cbn [py_read]. destruct p; cbn [py_read_prim]; try (apply ok_read_int; assumption);
      try (apply ok_rd_fixed; [lia|intros; exact I]).
    apply ok_rd_var. intros n. apply ok_rd_bytes. intros l. exact I.
  - intros p. apply ok_read_int; assumption.
  - intros e IH. cbn [py_read]. apply ok_rd_byte. intros n. destruct (n =? 0); [exact I|]. apply ok_bind; [assumption|intros; exact I].
  - intros hn cs IH. cbn [py_read]. apply ok_rd_byte. intros n. destruct (hn && (n =? 0)); [exact I|].
    apply ok_bind; [|intros; exact I]. generalize (n - (if hn then 1 else 0)). induction IH as [|c cs Hc Hcs IHcs]; intros i; cbn [pick]; [exact I|].
    destruct (i =? 0); [assumption|apply IHcs].
  - intros e IH. cbn [py_read]. apply ok_rd_var. intros n. apply ok_bind; [apply ok_rep; assumption|intros; exact I].
  - intros n e IH. cbn [py_read]. apply ok_bind; [apply ok_rep; assumption|intros; exact I].
  - intros r e IH. cbn [py_read]. apply ok_bind; [apply ok_rep, ok_rd_var; intros; exact I|]. intros sh.
    apply ok_bind; [apply ok_read_data; assumption|intros; exact I].
  - intros d e IH. cbn [py_read]. apply ok_bind; [apply ok_read_data; assumption|intros; exact I].
  - intros e IH. cbn [py_read]. apply ok_rd_var. intros rank. apply ok_bind; [apply ok_rep, ok_rd_var; intros; exact I|]. intros sh.
    apply ok_bind; [apply ok_read_data; assumption|intros; exact I].
  - intros k e IHk IHe. cbn [py_read]. apply ok_rd_var. intros n. apply ok_bind; [|intros; exact I].
    apply ok_rep. apply ok_bind; [assumption|]. intros a. apply ok_bind; [assumption|intros; exact I].
  - intros fs IH. cbn [py_read]. apply ok_bind; [|intros; exact I].
    induction IH as [|f fs Hf Hfs IHfs]; cbn [read_fields]; [exact I|].
    apply ok_bind; [assumption|]. intros x. apply ok_bind; [assumption|intros; exact I].
Qed.

(* ---------- end to end, through both buffered streams ---------- *)
(* A value written by the typed Python writer through a CodedOutputStream of ANY buffer size (no exception), followed by
   anything, is read back by the typed Python reader through a CodedInputStream of any buffer size >= 16 as exactly that
   value, leaving exactly what followed. *)
Theorem py_typed_roundtrip : forall b1 b2 t v rest chunks, (16 <= b2)%nat -> has_type t v = true ->
  pwfinish b1 (py_wops t v) = PWOk chunks ->
  exists s', mrun_p b2 (py_read t) (pin_init (concat chunks ++ rest)) = MVal v s' /\ ppending s' = rest.
Proof.
  intros b1 b2 t v rest chunks Hb Ht Hw.
  rewrite (py_typed_writer_bytes b1 t v chunks Ht Hw).
  assert (Hi : PInv b2 (pin_init (enc_py t v ++ rest))) by (apply pinv_init; lia).
  pose proof (prog_refines val b2 (py_read t) (pin_init (enc_py t v ++ rest)) ltac:(lia) Hi (py_read_ok b2 t Hb)) as H.
  change (ppending (pin_init (enc_py t v ++ rest))) with (enc_py t v ++ rest) in H.
  rewrite (py_read_roundtrip t v rest Ht) in H. destruct H as [s' [H1 [_ H2]]]. exists s'. split; assumption.
Qed.

(* ---------- the header check of the Python reader ---------- *)
Lemma pvdec_consumes : forall l n r, pvdec l = Some (n, r) -> exists used, l = used ++ r /\ pvdec used = Some (n, []).
Proof.
  induction l as [|b l IH]; intros n r H; [discriminate|]. cbn [pvdec] in H. destruct (b <? 128) eqn:E.
  - injection H as <- <-. exists [b]. split; [reflexivity|]. cbn [pvdec]. rewrite E. reflexivity.
  - destruct (pvdec l) as [[v r']|] eqn:E2; [|discriminate]. injection H as <- <-.
    destruct (IH v r' eq_refl) as [used [-> Hu]]. exists (b :: used). split; [reflexivity|]. cbn [pvdec]. rewrite E, Hu. reflexivity.
Qed.

(* whatever the Python reader expecting [expected] accepts starts with the magic bytes, four bytes that read as format
   version 1, a length prefix and exactly [expected] *)
Theorem py_header_accepted : forall expected l r, arun_p (py_read_header expected) l = PVal tt r ->
  exists verbytes lenbytes,
    l = magic ++ verbytes ++ lenbytes ++ expected ++ r
    /\ length verbytes = 4%nat /\ le_dec verbytes = format_version
    /\ pvdec lenbytes = Some (N.of_nat (length expected), []).
Proof.
  intros expected l r H. unfold py_read_header, rd_bytes, rd_fixed, rd_var in H. cbn [arun_p pastep] in H.
  destruct (take 5 l) as [[m l1]|] eqn:E1; [|discriminate].
  destruct (list_eq_N m magic) eqn:Em; cbn [negb] in H; [|discriminate]. apply list_eq_N_eq in Em. subst m.
  cbn [arun_p pastep] in H. destruct (take (N.of_nat 4) l1) as [[vb l2]|] eqn:E2; [|discriminate].
  destruct (le_dec vb =? format_version) eqn:Ev; cbn [negb] in H; [|discriminate]. apply N.eqb_eq in Ev.
  cbn [arun_p pastep] in H. destruct (pvdec l2) as [[n l3]|] eqn:E3; [|discriminate].
  cbn [arun_p pastep] in H. destruct (take n l3) as [[s l4]|] eqn:E4; [|discriminate].
  destruct (list_eq_N s expected) eqn:Es; [|discriminate]. apply list_eq_N_eq in Es. subst s.
  cbn [arun_p] in H. injection H as <-.
  destruct (take_spec _ _ _ _ E1) as [-> _]. destruct (take_spec _ _ _ _ E2) as [-> Hl4].
  destruct (take_spec _ _ _ _ E4) as [-> Hn]. destruct (pvdec_consumes _ _ _ E3) as [used [-> Hu]].
  exists vb, used. split; [reflexivity|]. split; [lia|]. split; [assumption|]. rewrite Hn. exact Hu.
Qed.

Theorem py_header_own : forall schema rest, arun_p (py_read_header schema) (enc_header schema ++ rest) = PVal tt rest.
Proof.
  intros schema rest. unfold py_read_header, enc_header. rewrite <- !app_assoc.
  change 5 with (N.of_nat (length magic)). rewrite run_bytes. rewrite list_eq_N_refl. cbn [negb].
  rewrite run_fixed by (vm_compute; reflexivity). rewrite N.eqb_refl. cbn [negb].
  rewrite run_var, run_bytes, list_eq_N_refl. reflexivity.
Qed.

(* a stream written under another schema is refused before any value is read *)
Theorem py_header_foreign : forall sa sb rest, sa <> sb -> arun_p (py_read_header sb) (enc_header sa ++ rest) = PBad.
Proof.
  intros sa sb rest Hne. unfold py_read_header, enc_header. rewrite <- !app_assoc.
  change 5 with (N.of_nat (length magic)). rewrite run_bytes. rewrite list_eq_N_refl. cbn [negb].
  rewrite run_fixed by (vm_compute; reflexivity). rewrite N.eqb_refl. cbn [negb].
  rewrite run_var, run_bytes. destruct (list_eq_N sa sb) eqn:E; [apply list_eq_N_eq in E; contradiction|reflexivity].
Qed.

Lemma py_header_ok : forall b expected, (4 <= b)%nat -> prog_ok b (py_read_header expected).
Proof.
  intros b expected Hb. unfold py_read_header. apply ok_rd_bytes. intros m. destruct (negb (list_eq_N m magic)); [exact I|].
  apply ok_rd_fixed; [assumption|]. intros ver. destruct (negb (ver =? format_version)); [exact I|].
  apply ok_rd_var. intros n. apply ok_rd_bytes. intros s. destruct (list_eq_N s expected); exact I.
Qed.

(* over the buffered stream, any buffer size >= 4: the foreign stream is refused (RuntimeError), no value is read *)
Theorem py_header_foreign_buffered : forall b sa sb rest, (4 <= b)%nat -> sa <> sb ->
  mrun_p b (py_read_header sb) (pin_init (enc_header sa ++ rest)) = MBad.
Proof.
  intros b sa sb rest Hb Hne.
  assert (Hi : PInv b (pin_init (enc_header sa ++ rest))) by (apply pinv_init; lia).
  pose proof (prog_refines unit b (py_read_header sb) (pin_init (enc_header sa ++ rest)) ltac:(lia) Hi (py_header_ok b sb Hb)) as H.
  change (ppending (pin_init (enc_header sa ++ rest))) with (enc_header sa ++ rest) in H.
  rewrite (py_header_foreign sa sb rest Hne) in H. exact H.
Qed.

(* ---------- a whole protocol, written and read by generated Python ---------- *)
Definition step_of (s : pstep) : step := match s with PSVal t _ => SValue t | PSStream t _ => SStream t end.
Definition result_of (s : pstep) : presult :=
  match s with PSVal _ v => PRVal v | PSStream _ bs => PRItems (concat (map batch_items bs)) end.
Definition pstep_typed (s : pstep) : bool :=
  match s with
  | PSVal t v => has_type t v
  | PSStream t bs => forallb (fun b => forallb (has_type t) (batch_items b)) bs
  end.
Definition pstep_blocks (s : pstep) : nat := match s with PSVal _ _ => O | PSStream _ bs => length (blocks_of bs) end.

Lemma header_ops_bytes : forall schema, obytes (py_header_ops schema) = enc_header schema.
Proof. intros. unfold obytes, py_header_ops, enc_header. cbn [map concat pwbytes]. rewrite app_nil_r. reflexivity. Qed.

Lemma steps_roundtrip : forall steps fuel rest,
  forallb pstep_typed steps = true -> Forall (fun s => (pstep_blocks s < fuel)%nat) steps ->
  arun_p (py_read_steps fuel (map step_of steps)) (obytes (concat (map pstep_ops steps)) ++ rest) = PVal (map result_of steps) rest.
Proof.
  induction steps as [|s steps IH]; intros fuel rest Ht Hf; [reflexivity|].
  cbn [forallb] in Ht. apply andb_true_iff in Ht. destruct Ht as [Hs Hss]. inversion Hf as [|? ? Hfs Hfss]; subst.
  cbn [map concat]. rewrite obytes_app, <- app_assoc. destruct s as [t v|t bs]; cbn [step_of py_read_steps pstep_ops result_of pstep_typed pstep_blocks] in *.
  - rewrite arun_bind. fold (obytes (py_wops t v)). rewrite (py_wops_bytes t v Hs), (py_read_roundtrip t v _ Hs), arun_bind, (IH fuel rest Hss Hfss). reflexivity.
  - rewrite arun_bind, (py_stream_any_grouping t bs fuel _ Hs Hfs), arun_bind, (IH fuel rest Hss Hfss). reflexivity.
Qed.

(* Header and every step, streams in any grouping: what generated Python writes, generated Python reads back *)
Theorem py_protocol_roundtrip : forall schema steps fuel rest,
  forallb pstep_typed steps = true -> Forall (fun s => (pstep_blocks s < fuel)%nat) steps ->
  arun_p (py_read_protocol fuel schema (map step_of steps)) (obytes (py_protocol_ops schema steps) ++ rest)
  = PVal (map result_of steps) rest.
Proof.
  intros schema steps fuel rest Ht Hf. unfold py_read_protocol, py_protocol_ops.
  rewrite obytes_app, <- app_assoc, header_ops_bytes, arun_bind, py_header_own. apply steps_roundtrip; assumption.
Qed.
