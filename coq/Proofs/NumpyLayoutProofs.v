(* Soundness of the Python array fast path: for an element type that is trivially serializable and whose aligned dtype has no
   padding ([py_fast]), the memory image of every well-typed element is its encoding - so value.data of a C-contiguous array is
   the concatenation of the element encodings, which is what Model.PyTyped.py_wops says write_bytes_directly receives. *)
From Coq Require Import List NArith ZArith Bool Lia Arith.
From Coq Require Import ZifyBool ZifyN ZifyNat.
From YV Require Import Base.Wire Proofs.WireProofs Model.Binary Proofs.BinaryProofs Model.CodedCpp Model.CodedPy Model.PyTyped
  Proofs.PyTypedProofs Model.PyReadProg Model.PyTypedRead Proofs.PyTypedReadProofs Model.NumpyLayout.
Import ListNotations.
Open Scope N_scope.

Lemma nalign_ge : forall o a, 0 < a -> o <= nalign o a.
Proof.
  intros o a Ha. unfold nalign.
  pose proof (N.div_mod (o + a - 1) a ltac:(lia)) as H. pose proof (N.mod_lt (o + a - 1) a ltac:(lia)) as H2.
  set (q := (o + a - 1) / a) in *. set (r := (o + a - 1) mod a) in *.
  replace (q * a) with (a * q) by apply N.mul_comm. lia.
Qed.

Lemma concat_map_some' : forall (l : list (list N)), concat (map (map Some) l) = map Some (concat l).
Proof. induction l as [|x l IH]; [reflexivity|]. cbn [map concat]. rewrite IH, map_app. reflexivity. Qed.

(* alignments are positive *)
Lemma np_fields_align_pos : forall fs off al pk e al' p', np_fields np_layout fs off al pk = Some (e, al', p') -> 0 < al -> 0 < al'.
Proof.
  induction fs as [|t r IHr]; intros off al pk e al' p' E Hal; cbn [np_fields] in E.
  - injection E as <- <- <-. assumption.
  - destruct (np_layout t) as [[[s a] p]|]; [|discriminate]. apply (IHr _ _ _ _ _ _ E). lia.
Qed.

Lemma np_align_pos : forall t s a p, np_layout t = Some (s, a, p) -> 0 < a.
Proof.
  apply (ty_ind' (fun t => forall s a p, np_layout t = Some (s, a, p) -> 0 < a)).
  - intros p s a pk H. cbn [np_layout] in H. destruct p; try discriminate; injection H as <- <- <-; lia.
  - intros b s a pk H. cbn [np_layout] in H. destruct b; try discriminate; injection H as <- <- <-; lia.
  - intros e _ s a pk H. discriminate.
  - intros hn cs _ s a pk H. discriminate.
  - intros e _ s a pk H. discriminate.
  - intros n e IH s a pk H. cbn [np_layout] in H. destruct (np_layout e) as [[[s0 a0] p0]|] eqn:E; [|discriminate].
    injection H as <- <- <-. eapply IH; reflexivity.
  - intros r e _ s a pk H. discriminate.
  - intros d e IH s a pk H. cbn [np_layout] in H. destruct (np_layout e) as [[[s0 a0] p0]|] eqn:E; [|discriminate].
    injection H as <- <- <-. eapply IH; reflexivity.
  - intros e _ s a pk H. discriminate.
  - intros k e _ _ s a pk H. discriminate.
  - intros fs _ s a pk H. cbn [np_layout] in H. destruct (np_fields np_layout fs 0 1 0) as [[[e al] p0]|] eqn:E; [|discriminate].
    injection H as <- <- <-. apply (np_fields_align_pos fs 0 1 0 e al p0 E). lia.
Qed.

(* image = encoding for trivially serializable element types without padding; the packed size is the length of the encoding
   (LEN_all) and, when aligned = packed, there is no room for padding *)
Definition NS (t : ty) : Prop := forall v s a p, py_ts t = true -> has_type t v = true ->
  np_layout t = Some (s, a, p) -> s = p -> nimg t v = map Some (enc_py t v).

(* end - start >= packed remainder, for any run of fields *)
Lemma np_fields_bounds : forall fs off al pk e al' p',
  Forall (fun t => forall s a p, np_layout t = Some (s, a, p) -> p <= s) fs ->
  np_fields np_layout fs off al pk = Some (e, al', p') -> pk <= off -> p' - pk <= e - off /\ pk <= p' /\ off <= e.
Proof.
  induction fs as [|t r IHr]; intros off al pk e al' p' HF E Hle; cbn [np_fields] in E.
  - injection E as <- <- <-. lia.
  - inversion HF as [|? ? Ht Hr]; subst. destruct (np_layout t) as [[[s a] p]|] eqn:El; [|discriminate].
    pose proof (np_align_pos t s a p El) as Ha. pose proof (nalign_ge off a Ha) as Hge. specialize (Ht s a p eq_refl).
    destruct (IHr _ _ _ _ _ _ Hr E ltac:(unfold nalign in *; lia)) as [H1 [H2 H3]]. unfold nalign in *. lia.
Qed.

Lemma np_sizes : forall t s a p, np_layout t = Some (s, a, p) -> p <= s.
Proof.
  apply (ty_ind' (fun t => forall s a p, np_layout t = Some (s, a, p) -> p <= s)).
  - intros p s a pk H. cbn [np_layout] in H. destruct p; try discriminate; injection H as <- <- <-; lia.
  - intros b s a pk H. cbn [np_layout] in H. destruct b; try discriminate; injection H as <- <- <-; lia.
  - intros e _ s a pk H. discriminate.
  - intros hn cs _ s a pk H. discriminate.
  - intros e _ s a pk H. discriminate.
  - intros n e IH s a pk H. cbn [np_layout] in H. destruct (np_layout e) as [[[s0 a0] p0]|] eqn:E; [|discriminate].
    injection H as <- <- <-. specialize (IH _ _ _ eq_refl). nia.
  - intros r e _ s a pk H. discriminate.
  - intros d e IH s a pk H. cbn [np_layout] in H. destruct (np_layout e) as [[[s0 a0] p0]|] eqn:E; [|discriminate].
    injection H as <- <- <-. specialize (IH _ _ _ eq_refl). nia.
  - intros e _ s a pk H. discriminate.
  - intros k e _ _ s a pk H. discriminate.
  - intros fs IH s a pk H. cbn [np_layout] in H. destruct (np_fields np_layout fs 0 1 0) as [[[e al] p0]|] eqn:E; [|discriminate].
    injection H as <- <- <-.
    destruct (np_fields_bounds fs 0 1 0 e al p0 IH E ltac:(lia)) as [H1 _].
    pose proof (np_fields_align_pos fs 0 1 0 e al p0 E ltac:(lia)) as Hal.
    pose proof (nalign_ge e al Hal). unfold nalign in *. lia.
Qed.

Lemma all_sizes : forall fs, Forall (fun t => forall s a p, np_layout t = Some (s, a, p) -> p <= s) fs.
Proof. intros fs. apply Forall_forall. intros t _ s a p H. exact (np_sizes t s a p H). Qed.

Lemma nfields_dense : forall fs xs off al pk e al' p,
  Forall NS fs -> forallb py_ts fs = true -> all2 has_type fs xs = true ->
  np_fields np_layout fs off al pk = Some (e, al', p) -> e - off = p - pk -> pk <= off ->
  nimg_fields nimg fs xs off = map Some (enc_fields enc_py fs xs).
Proof.
  induction fs as [|t r IH]; intros xs off al pk e al' p HS Hts Hty Hn Heq Hle.
  - destruct xs; cbn [all2] in Hty; [reflexivity|discriminate].
  - inversion HS as [|? ? Ht Hr]; subst. cbn [forallb] in Hts. apply andb_true_iff in Hts. destruct Hts as [T1 T2].
    destruct xs as [|x xr]; cbn [all2] in Hty; [discriminate|]. apply andb_true_iff in Hty. destruct Hty as [Hx Hxr].
    cbn [np_fields] in Hn. destruct (np_layout t) as [[[s a] p0]|] eqn:El; [|discriminate].
    cbn [nimg_fields enc_fields]. rewrite El.
    pose proof (np_align_pos t s a p0 El) as Ha. pose proof (nalign_ge off a Ha) as Hge. pose proof (np_sizes t s a p0 El) as Hps.
    unfold nalign in *. set (ao := (off + a - 1) / a * a) in *.
    destruct (np_fields_bounds r _ _ _ _ _ _ (all_sizes r) Hn ltac:(lia)) as [H1 [H2 H3]].
    assert (Eo : ao = off) by lia.
    assert (Es : s = p0) by lia.
    rewrite Eo in *. replace (off - off) with 0 by lia. cbn [npad N.to_nat repeat app].
    rewrite (Ht x s a p0 T1 Hx El Es), map_app. f_equal.
    apply (IH xr (off + s) (N.max al a) (pk + p0) e al' p Hr T2 Hxr Hn); lia.
Qed.

Theorem NS_all : forall t, NS t.
Proof.
  apply ty_ind'.
  - intros p. unfold NS. intros. reflexivity.
  - intros b. unfold NS. intros. destruct v; reflexivity.
  - intros e _. unfold NS. intros v s a p H. discriminate.
  - intros hn cs _. unfold NS. intros v s a p H. discriminate.
  - intros e _. unfold NS. intros v s a p H. discriminate.
  - intros n e IH. unfold NS. intros v s a p Hts Hty Hl Hs. cbn [py_ts] in Hts.
    destruct v; cbn [has_type] in Hty; try discriminate. apply andb_true_iff in Hty. destruct Hty as [Hn Hall].
    cbn [np_layout] in Hl. destruct (np_layout e) as [[[s0 a0] p0]|] eqn:El; [|discriminate]. injection Hl as <- <- <-.
    cbn [nimg]. rewrite epy_fixvec, <- concat_map_some', map_map. f_equal. apply map_ext_in. intros x Hin.
    rewrite forallb_forall in Hall.
    destruct (N.eq_dec n 0) as [->|Hn0].
    + (* no element *) apply N.eqb_eq in Hn. destruct vs; [contradiction|cbn in Hn; lia].
    + apply (IH x s0 a0 p0 Hts (Hall x Hin) El). pose proof (np_sizes e s0 a0 p0 El). nia.
  - intros r e _. unfold NS. intros v s a p H. discriminate.
  - intros d e IH. unfold NS. intros v s a p Hts Hty Hl Hs. cbn [py_ts] in Hts.
    destruct v; cbn [has_type] in Hty; try discriminate.
    apply andb_true_iff in Hty. destruct Hty as [Hty Hall]. apply andb_true_iff in Hty. destruct Hty as [Hsh Hn].
    apply list_eq_N_eq in Hsh. subst shape.
    cbn [np_layout] in Hl. destruct (np_layout e) as [[[s0 a0] p0]|] eqn:El; [|discriminate]. injection Hl as <- <- <-.
    cbn [nimg]. rewrite epy_fixarr, <- concat_map_some', map_map. f_equal. apply map_ext_in. intros x Hin.
    rewrite forallb_forall in Hall.
    destruct (N.eq_dec (prodN d) 0) as [Hz|Hn0].
    + apply N.eqb_eq in Hn. rewrite Hz in Hn. destruct vs; [contradiction|cbn in Hn; lia].
    + apply (IH x s0 a0 p0 Hts (Hall x Hin) El). pose proof (np_sizes e s0 a0 p0 El). nia.
  - intros e _. unfold NS. intros v s a p H. discriminate.
  - intros k e _ _. unfold NS. intros v s a p H. discriminate.
  - intros fs IH. unfold NS. intros v s a p Hts Hty Hl Hs. cbn [py_ts] in Hts.
    destruct v; cbn [has_type] in Hty; try discriminate.
    cbn [np_layout] in Hl. destruct (np_fields np_layout fs 0 1 0) as [[[e al] p0]|] eqn:En; [|discriminate].
    injection Hl as <- <- <-. cbn [nimg]. rewrite En, epy_rec.
    pose proof (np_fields_align_pos fs 0 1 0 e al p0 En ltac:(lia)) as Hal.
    pose proof (nalign_ge e al Hal) as Hge. fold (nalign e al) in Hs.
    destruct (np_fields_bounds fs 0 1 0 e al p0 (all_sizes fs) En ltac:(lia)) as [H1 _].
    assert (Ee : e = p0) by lia.
    rewrite (nfields_dense fs vs 0 1 0 e al p0 IH Hts Hty En) by lia.
    replace (nalign e al - e) with 0 by lia. cbn [npad N.to_nat repeat]. rewrite app_nil_r. reflexivity.
Qed.

(* the array fast path: the raw bytes of a C-contiguous array of such elements are the concatenated encodings *)
Theorem py_fast_path_sound : forall e xs, py_fast e = true -> forallb (has_type e) xs = true ->
  concat (map (nimg e) xs) = map Some (concat (map (enc_py e) xs)).
Proof.
  intros e xs Hf Hall. unfold py_fast in Hf. apply andb_true_iff in Hf. destruct Hf as [Hts Hs].
  destruct (np_layout e) as [[[s a] p]|] eqn:El; [|discriminate]. apply N.eqb_eq in Hs.
  rewrite <- concat_map_some', map_map. f_equal. apply map_ext_in. intros x Hin.
  rewrite forallb_forall in Hall. exact (NS_all e x s a p Hts (Hall x Hin) El Hs).
Qed.

(* without the padding test (the code before /repo commit cea71d1 took the fast path for every trivially serializable
   element type): {a: int8, b: float32} has three padding bytes in numpy's aligned dtype *)
Theorem py_fast_path_unguarded_refuted :
  exists e x, py_ts e = true /\ has_type e x = true /\ nimg e x <> map Some (enc_py e x).
Proof.
  exists (TRec [TPrim PInt8; TPrim PFloat32]), (VSeq [VInt 1; VBits 1073741824]).
  split; [reflexivity|]. split; [vm_compute; reflexivity|]. vm_compute. discriminate.
Qed.
