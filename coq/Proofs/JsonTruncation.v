(* NDJSON streams that lost lines: the line reader cannot complete when a line of a step that is not a stream is gone. *)
From Coq Require Import List NArith ZArith Bool Lia.
From YV Require Import Base.Wire Model.Binary Model.Json.
Import ListNotations.

Definition names (st : rstate) : list str :=
  match st with
  | (Some l, r) => fst l :: map fst r
  | (None, r) => map fst r
  end.

Lemma read_items_rest_names : forall name t rest vs st',
  read_items_rest name t rest = Some (vs, st') -> incl (names st') (map fst rest).
Proof.
  induction rest as [|[n j] r IH]; intros vs st' H; cbn [read_items_rest] in H.
  - injection H as <- <-. cbn. apply incl_refl.
  - destruct (str_eqb n name).
    + destruct (of_json t j); [|discriminate].
      destruct (read_items_rest name t r) as [[vs0 st0]|] eqn:E; [|discriminate].
      injection H as <- <-. cbn [map fst]. apply incl_tl. apply (IH _ _ eq_refl).
    + injection H as <- <-. cbn. apply incl_refl.
Qed.

Lemma read_items_names : forall name t st vs st',
  read_items name t st = Some (vs, st') -> incl (names st') (names st).
Proof.
  intros name t [[[n j]|] rest] vs st' H; cbn [read_items] in H.
  - destruct (str_eqb n name).
    + destruct (of_json t j); [|discriminate].
      destruct (read_items_rest name t rest) as [[vs0 st0]|] eqn:E; [|discriminate].
      injection H as <- <-. cbn [names fst]. apply incl_tl. apply (read_items_rest_names _ _ _ _ _ E).
    + injection H as <- <-. apply incl_refl.
  - cbn [names]. apply (read_items_rest_names _ _ _ _ _ H).
Qed.

Lemma str_eqb_true : forall a b : str, str_eqb a b = true -> a = b.
Proof.
  induction a as [|x a IH]; intros [|y b] H; cbn in H; try discriminate; [reflexivity|].
  apply andb_true_iff in H. destruct H as [H1 H2]. apply N.eqb_eq in H1. subst. f_equal. apply IH, H2.
Qed.

Lemma read_value_names : forall name t st v st',
  read_value name t st = Some (v, st') -> In name (names st) /\ incl (names st') (names st).
Proof.
  intros name t [[[n j]|] rest] v st' H; unfold read_value in H; cbn [next_line] in H.
  - destruct (str_eqb n name) eqn:E; [|discriminate]. destruct (of_json t j); [|discriminate].
    injection H as <- <-. apply str_eqb_true in E. subst. cbn [names fst]. split; [left; reflexivity | apply incl_tl, incl_refl].
  - destruct rest as [|[n j] r]; [discriminate|].
    destruct (str_eqb n name) eqn:E; [|discriminate]. destruct (of_json t j); [|discriminate].
    injection H as <- <-. apply str_eqb_true in E. subst. cbn [names map fst]. split; [left; reflexivity | apply incl_tl, incl_refl].
Qed.

(* every step that is not a stream needs a line of its name: if none is left, the reader does not complete *)
Theorem value_step_needs_its_line : forall p st name t,
  In (name, false, t) p -> ~ In name (names st) -> read_lines p st = None.
Proof.
  induction p as [|[[n0 s0] t0] pr IH]; intros st name t Hin Hno; [destruct Hin|].
  cbn [read_lines]. destruct Hin as [Heq|Hin].
  - injection Heq as -> -> ->.
    destruct (read_value name t st) as [[v st']|] eqn:E; [|reflexivity].
    exfalso. apply Hno. apply (proj1 (read_value_names _ _ _ _ _ E)).
  - destruct s0.
    + destruct (read_items n0 t0 st) as [[vs st']|] eqn:E; [|reflexivity].
      rewrite (IH st' name t Hin); [reflexivity|].
      intro C. apply Hno. apply (read_items_names _ _ _ _ _ E). exact C.
    + destruct (read_value n0 t0 st) as [[v st']|] eqn:E; [|reflexivity].
      rewrite (IH st' name t Hin); [reflexivity|].
      intro C. apply Hno. apply (proj2 (read_value_names _ _ _ _ _ E)). exact C.
Qed.

(* in particular for a stream cut at a line boundary: the lines kept are a prefix of what was written *)
Corollary cut_losing_a_value_step_is_refused : forall p ws kept dropped name t,
  write_lines p ws = kept ++ dropped -> In (name, false, t) p -> ~ In name (map fst kept) ->
  read_lines p (None, kept) = None.
Proof. intros p ws kept dropped name t _ Hin Hno. apply (value_step_needs_its_line p (None, kept) name t Hin Hno). Qed.
