(* Refinement of the C++ CodedInputStream machine to the abstract byte-list reader. *)
From Coq Require Import List NArith ZArith Bool Lia Arith.
From Coq Require Import ZifyBool ZifyN ZifyNat.
From YV Require Import Base.Wire Proofs.WireProofs Model.CodedCpp.
Import ListNotations.
Open Scope N_scope.

(* ---------- facts about take ---------- *)

Lemma take_0 : forall l, take 0 l = Some ([], l).
Proof. destruct l; reflexivity. Qed.

Lemma take_cons : forall n b r, n <> 0 ->
  take n (b :: r) = match take (n - 1) r with Some (h, t) => Some (b :: h, t) | None => None end.
Proof. intros n b r H. cbn [take]. assert (E : (n =? 0) = false) by lia. rewrite E. reflexivity. Qed.

Lemma take_nil : forall n, n <> 0 -> take n [] = None.
Proof. intros n H. cbn. assert (E : (n =? 0) = false) by lia. rewrite E. reflexivity. Qed.

Lemma take_none_iff : forall l n, take n l = None <-> N.of_nat (length l) < n.
Proof.
  induction l as [|b l IH]; intros n.
  - destruct (N.eq_dec n 0) as [->|H].
    + rewrite take_0. cbn. split; [discriminate|lia].
    + rewrite take_nil by assumption. cbn. split; [lia|reflexivity].
  - destruct (N.eq_dec n 0) as [->|H].
    + rewrite take_0. cbn [length]. split; [discriminate|lia].
    + rewrite take_cons by assumption. cbn [length]. specialize (IH (n - 1)).
      destruct (take (n - 1) l) as [[h t]|].
      * split; [discriminate|]. intros. assert (Some (h, t) = None) by (apply IH; lia). discriminate.
      * split; [|reflexivity]. intros _. assert (N.of_nat (length l) < n - 1) by (apply IH; reflexivity). lia.
Qed.

(* split point inside the first list *)
Lemma take_app_le : forall a b c, (c <= length a)%nat ->
  take (N.of_nat c) (a ++ b) = Some (firstn c a, skipn c a ++ b).
Proof.
  intros a b c Hc.
  rewrite <- (firstn_skipn c a) at 1. rewrite <- app_assoc.
  replace (N.of_nat c) with (N.of_nat (length (firstn c a))).
  - apply take_app.
  - rewrite firstn_length. lia.
Qed.

(* whole first list consumed *)
Lemma take_app_ge : forall a b n, N.of_nat (length a) <= n ->
  take n (a ++ b) = match take (n - N.of_nat (length a)) b with
                    | Some (h, t) => Some (a ++ h, t) | None => None end.
Proof.
  induction a as [|x a IH]; intros b n H.
  - cbn [length app]. replace (n - N.of_nat 0) with n by lia. destruct (take n b) as [[h t]|]; reflexivity.
  - cbn [length app] in *. rewrite take_cons by lia. rewrite IH by lia.
    replace (n - 1 - N.of_nat (length a)) with (n - N.of_nat (S (length a))) by lia.
    destruct (take _ b) as [[h t]|]; reflexivity.
Qed.

(* ---------- raw split of the first varint ---------- *)

Fixpoint vraw (l : list N) : option (list N * list N) :=
  match l with
  | [] => None
  | b :: r => if b <? 128 then Some ([b], r)
              else match vraw r with Some (bs, t) => Some (b :: bs, t) | None => None end
  end.

Lemma vraw_app : forall l bs t, vraw l = Some (bs, t) -> l = bs ++ t /\ bs <> [].
Proof.
  induction l as [|b l IH]; intros bs t H; [discriminate|].
  cbn [vraw] in H. destruct (b <? 128).
  - injection H as <- <-. split; [reflexivity|discriminate].
  - destruct (vraw l) as [[bs' t']|] eqn:E; [|discriminate].
    injection H as <- <-. destruct (IH _ _ eq_refl) as [-> _]. split; [reflexivity|discriminate].
Qed.

Lemma vdecb_vraw_ok : forall k l v r, vdecb k l = AOk v r ->
  exists bs, vraw l = Some (bs, r) /\ (length bs <= k)%nat /\ vdec bs = Some (v, []).
Proof.
  induction k as [|k IH]; intros l v r H; [discriminate|].
  destruct l as [|b l]; [discriminate|]. cbn [vdecb] in H. cbn [vraw].
  destruct (b <? 128) eqn:E.
  - injection H as <- <-. exists [b]. cbn. rewrite E. repeat split; lia.
  - destruct (vdecb k l) as [v' r'| | |] eqn:E2; try discriminate.
    injection H as <- <-. destruct (IH _ _ _ E2) as [bs [H1 [H2 H3]]].
    rewrite H1. exists (b :: bs). cbn [length vdec]. rewrite E, H3. repeat split; lia.
Qed.

Lemma vdecb_vraw_eof : forall k l, vdecb k l = AEof -> vraw l = None /\ (length l < k)%nat.
Proof.
  induction k as [|k IH]; intros l H; [discriminate|].
  destruct l as [|b l]; [cbn; split; [reflexivity|lia]|]. cbn [vdecb] in H. cbn [vraw length].
  destruct (b <? 128); [discriminate|].
  destruct (vdecb k l) eqn:E2; try discriminate.
  destruct (IH _ E2) as [-> ?]. split; [reflexivity|lia].
Qed.

Lemma vdecb_not_nf : forall k l, vdecb k l <> ANotFinished.
Proof.
  induction k as [|k IH]; intros l; [discriminate|].
  destruct l as [|b l]; [discriminate|]. cbn [vdecb]. destruct (b <? 128); [discriminate|].
  specialize (IH l). destruct (vdecb k l); congruence.
Qed.

(* ---------- the machine ---------- *)

Section Refine.
Variable bufsize : nat.
Hypothesis bufpos : (0 < bufsize)%nat.

Definition Inv (s : cin) : Prop :=
  (at_eof s = true -> under s = []) /\ (length (avail s) <= bufsize)%nat.

Lemma inv_init : forall input, Inv (cin_init input).
Proof. intros. split; cbn; [discriminate|lia]. Qed.

Lemma fill_nonempty : forall allow s, Inv s -> avail s = [] -> under s <> [] ->
  exists s1, fill bufsize allow s = (Ok s1, s1) /\ pending s1 = pending s /\ avail s1 <> [] /\ Inv s1
             /\ length (avail s1) = Nat.min bufsize (length (under s)).
Proof.
  intros allow s [Hi1 Hi2] Ha Hu. unfold fill.
  destruct (at_eof s) eqn:E; [exfalso; apply Hu, Hi1; reflexivity|].
  destruct (under s) as [|u us] eqn:Eu; [congruence|].
  set (k := Nat.min bufsize (length (u :: us))).
  assert (Hk : (0 < k)%nat) by (unfold k; cbn [length]; lia).
  assert (Ek : Nat.eqb k 0 = false) by (apply Nat.eqb_neq; lia).
  rewrite Ek. cbn [andb].
  eexists. split; [reflexivity|]. unfold pending; cbn [avail under at_eof].
  rewrite firstn_skipn, Ha. cbn [app]. repeat split.
  - rewrite Eu. reflexivity.
  - destruct k; [lia|]. cbn. discriminate.
  - cbn [avail under at_eof]. intros Hlt. apply Nat.ltb_lt in Hlt.
    assert (k = length (u :: us)) by (unfold k; lia).
    rewrite H. apply skipn_all.
  - cbn [avail under at_eof]. rewrite firstn_length. unfold k. lia.
  - cbn [avail under at_eof]. rewrite firstn_length. unfold k. lia.
Qed.

Lemma fill_empty_false : forall s, Inv s -> under s = [] -> fst (fill bufsize false s) = Eof.
Proof.
  intros s _ Hu. unfold fill. destruct (at_eof s); [reflexivity|].
  rewrite Hu. cbn [length]. rewrite Nat.min_0_r. reflexivity.
Qed.

Lemma fetch_spec : forall s, Inv s ->
  match pending s with
  | [] => fst (fetch bufsize s) = Eof
  | b :: r => exists s1, fetch bufsize s = (Ok b, s1) /\ pending s1 = r /\ Inv s1
  end.
Proof.
  intros s HI. unfold pending, fetch. destruct (avail s) as [|a av] eqn:Ea.
  - cbn [app]. destruct (under s) as [|u us] eqn:Eu.
    + pose proof (fill_empty_false s HI Eu) as H.
      destruct (fill bufsize false s) as [[s1| |f] s2]; cbn in H; try discriminate. reflexivity.
    + destruct (fill_nonempty false s HI Ea) as [s1 [H1 [H2 [H3 [H4 H5]]]]]; [congruence|].
      rewrite H1. destruct (avail s1) as [|b r] eqn:E1; [congruence|].
      unfold pending in H2. rewrite E1, Ea, Eu in H2. cbn [app] in H2. injection H2 as <- <-.
      eexists. split; [reflexivity|]. unfold pending; cbn. split; [reflexivity|].
      destruct H4 as [H41 H42]. split; cbn; [assumption|]. rewrite E1 in H42. cbn in H42. lia.
  - cbn [app]. eexists. split; [reflexivity|]. unfold pending; cbn. split; [reflexivity|].
    destruct HI as [H1 H2]. split; cbn; [assumption|]. rewrite Ea in H2. cbn in H2. lia.
Qed.

Lemma var_slow_spec : forall fuel s acc, Inv s -> (length (pending s) < fuel)%nat ->
  match vraw (pending s) with
  | Some (bs, rest) => exists s1, var_slow bufsize fuel s acc = (Ok (rev acc ++ bs), s1)
                                  /\ pending s1 = rest /\ Inv s1
  | None => fst (var_slow bufsize fuel s acc) = Eof
  end.
Proof.
  induction fuel as [|f IH]; intros s acc HI Hf; [lia|].
  cbn [var_slow]. pose proof (fetch_spec s HI) as Hfetch.
  destruct (pending s) as [|b r] eqn:Ep.
  - cbn [vraw]. destruct (fetch bufsize s) as [[x| |x] s1]; cbn in Hfetch; try discriminate. reflexivity.
  - destruct Hfetch as [s1 [H1 [H2 H3]]]. rewrite H1. cbn [vraw].
    destruct (b <? 128) eqn:E.
    + exists s1. cbn [rev]. split; [reflexivity|]. split; assumption.
    + specialize (IH s1 (b :: acc) H3). rewrite H2 in IH. cbn [length] in Hf.
      specialize (IH ltac:(lia)).
      destruct (vraw r) as [[bs t]|].
      * destruct IH as [s2 [G1 [G2 G3]]]. exists s2. rewrite G1. cbn [rev]. rewrite <- app_assoc. cbn [app].
        split; [reflexivity|]. split; assumption.
      * exact IH.
Qed.

Lemma var_fast_spec : forall l acc bs t, vraw l = Some (bs, t) ->
  var_fast l acc = Ok (rev acc ++ bs, t).
Proof.
  induction l as [|b l IH]; intros acc bs t H; [discriminate|].
  cbn [vraw] in H. cbn [var_fast]. destruct (b <? 128).
  - injection H as <- <-. reflexivity.
  - destruct (vraw l) as [[bs' t']|] eqn:E; [|discriminate]. injection H as <- <-.
    rewrite (IH (b :: acc) bs' t' eq_refl). cbn [rev]. rewrite <- app_assoc. reflexivity.
Qed.

(* when the varint fits in the first list, the split happens there *)
Lemma vraw_app_prefix : forall a b bs t, vraw (a ++ b) = Some (bs, t) -> (length bs <= length a)%nat ->
  exists a', vraw a = Some (bs, a') /\ t = a' ++ b.
Proof.
  induction a as [|x a IH]; intros b bs t H Hl.
  - apply vraw_app in H. destruct H as [_ H]. destruct bs; [congruence|cbn in Hl; lia].
  - cbn [app vraw] in *. destruct (x <? 128).
    + injection H as <- <-. eexists. split; reflexivity.
    + destruct (vraw (a ++ b)) as [[bs' t']|] eqn:E; [|discriminate]. injection H as <- <-.
      cbn [length] in Hl. destruct (IH b bs' t' E ltac:(lia)) as [a' [H1 H2]].
      rewrite H1. eexists. split; [reflexivity|assumption].
Qed.

Lemma var_value_ok : forall w bs v, (length bs <= max_varint w)%nat -> vdec bs = Some (v, []) ->
  var_value w bs = Ok (v mod 2 ^ w).
Proof.
  intros w bs v Hl Hd. unfold var_value.
  assert (E : Nat.ltb (max_varint w) (length bs) = false) by (apply Nat.ltb_ge; lia).
  rewrite E, Hd. reflexivity.
Qed.

Lemma max_varint_le : forall w, (max_varint w <= max_varint 64)%nat.
Proof. intros w. unfold max_varint. destruct (w <=? 32); cbn; lia. Qed.

Lemma read_var_spec : forall w s, Inv s ->
  match vdecb (max_varint w) (pending s) with
  | AOk v r => exists s1, read_var bufsize w s = (Ok (v mod 2 ^ w), s1) /\ pending s1 = r /\ Inv s1
  | AEof => fst (read_var bufsize w s) = Eof
  | _ => True
  end.
Proof.
  intros w s HI.
  (* the two paths, characterised once *)
  assert (Hfast : forall s0 v r, Inv s0 -> vdecb (max_varint w) (pending s0) = AOk v r ->
            (max_varint w <= length (avail s0))%nat ->
            exists s1,
              match var_fast (avail s0) [] with
              | Ok (bytes, r0) =>
                  match var_value w bytes with
                  | Ok v0 => (Ok v0, mkCin r0 (under s0) (at_eof s0))
                  | Eof => (Eof, s0) | Fault x => (Fault x, s0)
                  end
              | Eof => (Eof, s0) | Fault x => (Fault x, s0)
              end = (Ok (v mod 2 ^ w), s1) /\ pending s1 = r /\ Inv s1).
  { intros s0 v r HI0 Hd Hlen.
    destruct (vdecb_vraw_ok _ _ _ _ Hd) as [bs [H1 [H2 H3]]].
    unfold pending in H1. destruct (vraw_app_prefix _ _ _ _ H1 ltac:(lia)) as [a' [G1 G2]].
    rewrite (var_fast_spec _ [] _ _ G1). cbn [rev app].
    rewrite (var_value_ok w bs v H2 H3).
    eexists. split; [reflexivity|]. unfold pending; cbn. split; [symmetry; assumption|].
    destruct HI0 as [I1 I2]. split; cbn; [assumption|].
    apply vraw_app in G1. destruct G1 as [G1 _]. rewrite G1, app_length in I2. lia. }
  assert (Hslow : forall s0, Inv s0 ->
            match vdecb (max_varint w) (pending s0) with
            | AOk v r => exists s1,
                match var_slow bufsize (fuel_of s0) s0 [] with
                | (Ok bytes, s1) =>
                    match var_value w bytes with
                    | Ok v0 => (Ok v0, s1) | Eof => (Eof, s1) | Fault x => (Fault x, s1)
                    end
                | (Eof, s1) => (Eof, s1) | (Fault x, s1) => (Fault x, s1)
                end = (Ok (v mod 2 ^ w), s1) /\ pending s1 = r /\ Inv s1
            | AEof => fst (match var_slow bufsize (fuel_of s0) s0 [] with
                | (Ok bytes, s1) =>
                    match var_value w bytes with
                    | Ok v0 => (Ok v0, s1) | Eof => (Eof, s1) | Fault x => (Fault x, s1)
                    end
                | (Eof, s1) => (Eof, s1) | (Fault x, s1) => (Fault x, s1)
                end) = Eof
            | _ => True
            end).
  { intros s0 HI0.
    pose proof (var_slow_spec (fuel_of s0) s0 [] HI0) as Hs.
    assert (Hfu : (length (pending s0) < fuel_of s0)%nat)
      by (unfold fuel_of, pending; rewrite app_length; lia).
    specialize (Hs Hfu).
    destruct (vdecb (max_varint w) (pending s0)) as [v r| | |] eqn:Hd; try exact I.
    - destruct (vdecb_vraw_ok _ _ _ _ Hd) as [bs [H1 [H2 H3]]]. rewrite H1 in Hs.
      destruct Hs as [s1 [G1 [G2 G3]]]. rewrite G1. cbn [rev app].
      rewrite (var_value_ok w bs v H2 H3). exists s1. split; [reflexivity|]. split; assumption.
    - destruct (vdecb_vraw_eof _ _ Hd) as [H1 _]. rewrite H1 in Hs.
      destruct (var_slow bufsize (fuel_of s0) s0 []) as [[x| |x] s1]; cbn in Hs; try discriminate.
      reflexivity. }
  unfold read_var.
  destruct (Nat.ltb (length (avail s)) (max_varint w)) eqn:Elt.
  - destruct (avail s) as [|a av] eqn:Ea.
    + destruct (under s) as [|u us] eqn:Eu.
      * (* nothing left at all *)
        assert (Hp : pending s = []) by (unfold pending; rewrite Ea, Eu; reflexivity).
        rewrite Hp. unfold max_varint. destruct (w <=? 32); cbn [vdecb].
        -- pose proof (fill_empty_false s HI Eu) as H.
           destruct (fill bufsize false s) as [[s1| |f] s2]; cbn in H; try discriminate. reflexivity.
        -- pose proof (fill_empty_false s HI Eu) as H.
           destruct (fill bufsize false s) as [[s1| |f] s2]; cbn in H; try discriminate. reflexivity.
      * destruct (fill_nonempty false s HI Ea) as [s1 [H1 [H2 [H3 [H4 H5]]]]]; [congruence|].
        rewrite H1. rewrite <- H2.
        destruct (Nat.leb (max_varint 64) (length (avail s1))) eqn:El.
        -- apply Nat.leb_le in El. pose proof (max_varint_le w).
           destruct (vdecb (max_varint w) (pending s1)) as [v r| | |] eqn:Hd; try exact I.
           ++ apply (Hfast s1 v r H4 Hd). lia.
           ++ destruct (vdecb_vraw_eof _ _ Hd) as [_ Hl]. unfold pending in Hl.
              rewrite app_length in Hl. lia.
        -- apply (Hslow s1 H4).
    + rewrite <- Ea in *. apply (Hslow s HI).
  - apply Nat.ltb_ge in Elt.
    destruct (vdecb (max_varint w) (pending s)) as [v r| | |] eqn:Hd; try exact I.
    + apply (Hfast s v r HI Hd Elt).
    + destruct (vdecb_vraw_eof _ _ Hd) as [_ Hl]. unfold pending in Hl. rewrite app_length in Hl. lia.
Qed.

Lemma read_bytes_spec : forall fuel n s acc, Inv s -> (length (pending s) < fuel)%nat ->
  match take n (pending s) with
  | Some (h, t) => exists s1, read_bytes bufsize fuel n s acc = (Ok (acc ++ h), s1)
                              /\ pending s1 = t /\ Inv s1
  | None => fst (read_bytes bufsize fuel n s acc) = Eof
  end.
Proof.
  induction fuel as [|f IH]; intros n s acc HI Hf; [lia|].
  destruct (N.eq_dec n 0) as [->|Hn].
  - rewrite take_0. cbn [read_bytes]. cbn [N.eqb]. exists s. rewrite app_nil_r. repeat split; apply HI.
  - cbn [read_bytes]. assert (En : (n =? 0) = false) by lia. rewrite En.
    (* one copy step from a state whose buffer is non-empty *)
    assert (Hstep : forall s0, Inv s0 -> avail s0 <> [] -> (length (pending s0) <= length (pending s))%nat ->
      let c := Nat.min (N.to_nat (N.min n (N.of_nat (length (avail s0))))) (length (avail s0)) in
      match take n (pending s0) with
      | Some (h, t) => exists s1,
          read_bytes bufsize f (n - N.of_nat c)
            (mkCin (skipn c (avail s0)) (under s0) (at_eof s0)) (acc ++ firstn c (avail s0))
          = (Ok (acc ++ h), s1) /\ pending s1 = t /\ Inv s1
      | None => fst (read_bytes bufsize f (n - N.of_nat c)
            (mkCin (skipn c (avail s0)) (under s0) (at_eof s0)) (acc ++ firstn c (avail s0))) = Eof
      end).
    { intros s0 HI0 Hne Hle c.
      assert (Hc : (0 < c <= length (avail s0))%nat).
      { unfold c. destruct (avail s0); [congruence|]. cbn [length]. lia. }
      assert (Hcn : N.of_nat c <= n) by (unfold c; lia).
      set (s' := mkCin (skipn c (avail s0)) (under s0) (at_eof s0)).
      assert (HI' : Inv s').
      { destruct HI0 as [I1 I2]. split; cbn; [assumption|]. rewrite skipn_length. lia. }
      assert (Hp' : pending s0 = firstn c (avail s0) ++ pending s').
      { unfold pending, s'; cbn. rewrite app_assoc, firstn_skipn. reflexivity. }
      assert (Hlen' : (length (pending s') < f)%nat).
      { rewrite Hp', app_length, firstn_length in Hle. lia. }
      specialize (IH (n - N.of_nat c) s' (acc ++ firstn c (avail s0)) HI' Hlen').
      rewrite Hp'. rewrite take_app_ge by (rewrite firstn_length; lia).
      rewrite firstn_length. replace (Nat.min c (length (avail s0))) with c by lia.
      destruct (take (n - N.of_nat c) (pending s')) as [[h t]|].
      - destruct IH as [s1 [G1 [G2 G3]]]. exists s1. rewrite G1, <- app_assoc.
        split; [reflexivity|]. split; assumption.
      - exact IH. }
    destruct (avail s) as [|a av] eqn:Ea.
    + destruct (under s) as [|u us] eqn:Eu.
      * assert (Hp : pending s = []) by (unfold pending; rewrite Ea, Eu; reflexivity).
        rewrite Hp, take_nil by assumption.
        pose proof (fill_empty_false s HI Eu) as H.
        destruct (fill bufsize false s) as [[s1| |x] s2]; cbn in H; try discriminate. reflexivity.
      * destruct (fill_nonempty false s HI Ea) as [s1 [H1 [H2 [H3 [H4 H5]]]]]; [congruence|].
        rewrite H1. destruct (avail s1) as [|b r] eqn:E1; [congruence|]. rewrite <- E1.
        rewrite <- H2. apply Hstep; [assumption|congruence|rewrite H2; lia].
    + rewrite <- Ea. apply Hstep; [assumption|congruence|lia].
Qed.

Lemma read_fixed_spec : forall k s, Inv s ->
  match take (N.of_nat k) (pending s) with
  | Some (h, t) => exists s1, read_fixed bufsize k s = (Ok (le_dec h), s1) /\ pending s1 = t /\ Inv s1
  | None => fst (read_fixed bufsize k s) = Eof
  end.
Proof.
  intros k s HI.
  assert (Hfast : forall s0, Inv s0 -> (k <= length (avail s0))%nat ->
     take (N.of_nat k) (pending s0) = Some (firstn k (avail s0), skipn k (avail s0) ++ under s0)
     /\ Inv (mkCin (skipn k (avail s0)) (under s0) (at_eof s0))).
  { intros s0 [I1 I2] Hk. split.
    - unfold pending. apply take_app_le. assumption.
    - split; cbn; [assumption|]. rewrite skipn_length. lia. }
  assert (Hvia : forall s0, Inv s0 ->
     match take (N.of_nat k) (pending s0) with
     | Some (h, t) => exists s1,
         match read_bytes bufsize (fuel_of s0) (N.of_nat k) s0 [] with
         | (Ok l, s1) => (Ok (le_dec l), s1)
         | (Eof, s1) => (Eof, s1) | (Fault x, s1) => (Fault x, s1)
         end = (Ok (le_dec h), s1) /\ pending s1 = t /\ Inv s1
     | None => fst (match read_bytes bufsize (fuel_of s0) (N.of_nat k) s0 [] with
         | (Ok l, s1) => (Ok (le_dec l), s1)
         | (Eof, s1) => (Eof, s1) | (Fault x, s1) => (Fault x, s1)
         end) = Eof
     end).
  { intros s0 HI0.
    pose proof (read_bytes_spec (fuel_of s0) (N.of_nat k) s0 [] HI0) as Hs.
    assert (Hfu : (length (pending s0) < fuel_of s0)%nat)
      by (unfold fuel_of, pending; rewrite app_length; lia).
    specialize (Hs Hfu).
    destruct (take (N.of_nat k) (pending s0)) as [[h t]|].
    - destruct Hs as [s1 [G1 [G2 G3]]]. rewrite G1. cbn [app]. exists s1.
      split; [reflexivity|]. split; assumption.
    - destruct (read_bytes bufsize (fuel_of s0) (N.of_nat k) s0 []) as [[x| |x] s1]; cbn in Hs; try discriminate.
      reflexivity. }
  unfold read_fixed.
  destruct (Nat.ltb (length (avail s)) k) eqn:Elt.
  - destruct (avail s) as [|a av] eqn:Ea.
    + destruct (under s) as [|u us] eqn:Eu.
      * assert (Hp : pending s = []) by (unfold pending; rewrite Ea, Eu; reflexivity).
        rewrite Hp. apply Nat.ltb_lt in Elt. cbn in Elt. rewrite take_nil by lia.
        pose proof (fill_empty_false s HI Eu) as H.
        destruct (fill bufsize false s) as [[s1| |x] s2]; cbn in H; try discriminate. reflexivity.
      * destruct (fill_nonempty false s HI Ea) as [s1 [H1 [H2 [H3 [H4 H5]]]]]; [congruence|].
        rewrite H1. rewrite <- H2.
        destruct (Nat.leb k (length (avail s1))) eqn:El.
        -- apply Nat.leb_le in El. destruct (Hfast s1 H4 El) as [G1 G2]. rewrite G1.
           eexists. split; [reflexivity|]. split; [reflexivity|assumption].
        -- apply (Hvia s1 H4).
    + apply (Hvia s HI).
  - apply Nat.ltb_ge in Elt. destruct (Hfast s HI Elt) as [G1 G2]. rewrite G1.
    eexists. split; [reflexivity|]. split; [reflexivity|assumption].
Qed.

Lemma verify_spec : forall s, Inv s ->
  match pending s with
  | [] => exists s1, verify_finished bufsize s = (Ok tt, s1) /\ pending s1 = [] /\ Inv s1
  | _ => fst (verify_finished bufsize s) = Fault NotFinished
  end.
Proof.
  intros s HI. unfold verify_finished, pending.
  destruct (at_eof s) eqn:Ee.
  - destruct HI as [I1 I2]. rewrite (I1 Ee). rewrite app_nil_r.
    destruct (avail s) eqn:Ea; [|reflexivity].
    exists s. split; [reflexivity|]. unfold pending. rewrite Ea, (I1 Ee). split; [reflexivity|].
    split; [assumption|rewrite Ea; cbn; lia].
  - destruct (avail s) as [|a av] eqn:Ea; [|reflexivity]. cbn [app].
    destruct (under s) as [|u us] eqn:Eu.
    + unfold fill. rewrite Ee, Eu. cbn [length]. rewrite Nat.min_0_r. cbn [Nat.eqb negb andb firstn skipn].
      assert (El : Nat.ltb 0 bufsize = true) by (apply Nat.ltb_lt; assumption).
      rewrite El. cbn [at_eof avail]. eexists. split; [reflexivity|]. unfold pending; cbn.
      split; [reflexivity|]. split; cbn; [reflexivity|lia].
    + destruct (fill_nonempty true s HI Ea) as [s1 [H1 [H2 [H3 [H4 H5]]]]]; [congruence|].
      rewrite H1. destruct (at_eof s1); [|reflexivity].
      destruct (avail s1); [congruence|reflexivity].
Qed.

(* ---------- one step and whole scripts ---------- *)

Theorem rstep_refines : forall s op, Inv s ->
  match astep (pending s) op with
  | AOk v r => exists s1, rstep bufsize s op = (Ok v, s1) /\ pending s1 = r /\ Inv s1
  | AEof => fst (rstep bufsize s op) = Eof
  | AMalformed => True
  | ANotFinished => fst (rstep bufsize s op) = Fault NotFinished
  end.
Proof.
  intros s op HI. destruct op as [|w|k|n|]; cbn [astep rstep].
  - pose proof (fetch_spec s HI) as H. destruct (pending s) as [|b r].
    + destruct (fetch bufsize s) as [[x| |x] s1]; cbn in H; try discriminate. reflexivity.
    + destruct H as [s1 [H1 [H2 H3]]]. rewrite H1. exists s1. split; [reflexivity|]. split; assumption.
  - pose proof (read_var_spec w s HI) as H.
    destruct (vdecb (max_varint w) (pending s)) as [v r| | |] eqn:Hd; try exact I.
    + destruct H as [s1 [H1 [H2 H3]]]. rewrite H1. exists s1. split; [reflexivity|]. split; assumption.
    + destruct (read_var bufsize w s) as [[x| |x] s1]; cbn in H; try discriminate. reflexivity.
    + exfalso. exact (vdecb_not_nf _ _ Hd).
  - pose proof (read_fixed_spec k s HI) as H.
    destruct (take (N.of_nat k) (pending s)) as [[h t]|].
    + destruct H as [s1 [H1 [H2 H3]]]. rewrite H1. exists s1. split; [reflexivity|]. split; assumption.
    + destruct (read_fixed bufsize k s) as [[x| |x] s1]; cbn in H; try discriminate. reflexivity.
  - pose proof (read_bytes_spec (fuel_of s) n s [] HI) as H.
    assert (Hfu : (length (pending s) < fuel_of s)%nat)
      by (unfold fuel_of, pending; rewrite app_length; lia).
    specialize (H Hfu).
    destruct (take n (pending s)) as [[h t]|].
    + destruct H as [s1 [H1 [H2 H3]]]. rewrite H1. exists s1. split; [reflexivity|]. split; assumption.
    + destruct (read_bytes bufsize (fuel_of s) n s []) as [[x| |x] s1]; cbn in H; try discriminate. reflexivity.
  - pose proof (verify_spec s HI) as H. destruct (pending s) as [|b r].
    + destruct H as [s1 [H1 [H2 H3]]]. rewrite H1. exists s1. split; [reflexivity|]. split; assumption.
    + destruct (verify_finished bufsize s) as [[x| |x] s1]; cbn in H; try discriminate.
      injection H as ->. reflexivity.
Qed.

(* a script is well-formed for an input when no varint exceeds its byte budget *)
Fixpoint no_malformed (l : list N) (ops : list rop) : Prop :=
  match ops with
  | [] => True
  | op :: rest => match astep l op with
                  | AOk _ r => no_malformed r rest
                  | AMalformed => False
                  | _ => True
                  end
  end.

Theorem rrun_refines : forall ops s, Inv s -> no_malformed (pending s) ops ->
  rrun bufsize s ops = arun (pending s) ops.
Proof.
  induction ops as [|op ops IH]; intros s HI Hm; [reflexivity|].
  cbn [rrun arun no_malformed] in *. pose proof (rstep_refines s op HI) as H.
  destruct (astep (pending s) op) as [v r| | |].
  - destruct H as [s1 [H1 [H2 H3]]]. rewrite H1. f_equal. rewrite <- H2. apply IH; [assumption|].
    rewrite H2. assumption.
  - destruct (rstep bufsize s op) as [[x| |x] s1]; cbn in H; try discriminate. reflexivity.
  - contradiction.
  - destruct (rstep bufsize s op) as [[x| |x] s1]; cbn in H; try discriminate. injection H as ->. reflexivity.
Qed.

End Refine.

(* Every buffer size >= 1, every input, every script. *)
Theorem cpp_reader_refines : forall bufsize input ops, (0 < bufsize)%nat ->
  no_malformed input ops -> rrun bufsize (cin_init input) ops = arun input ops.
Proof.
  intros bufsize input ops Hb Hm.
  apply (rrun_refines bufsize Hb ops (cin_init input)); [|exact Hm].
  split; cbn; [discriminate|lia].
Qed.

