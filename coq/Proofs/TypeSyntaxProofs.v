From Coq Require Import List NArith Bool.
From YV Require Import Base.Wire Model.Binary Model.Json Model.TypeSyntax.
Import ListNotations.
Open Scope N_scope.

Section ShInd.
Variable P : sh -> Prop.
Hypothesis Hname : forall n args, Forall P args -> P (SName n args).
Hypothesis Hopt : forall t, P t -> P (SOptT t).
Hypothesis Hvec : forall l t, P t -> P (SVecT l t).
Hypothesis Harr : forall d t, P t -> P (SArrT d t).
Hypothesis Hmap : forall k v, P k -> P v -> P (SMapT k v).
Fixpoint sh_ind' (s : sh) : P s :=
  match s with
  | SName n args => Hname n args ((fix go (l : list sh) : Forall P l :=
                                     match l with [] => Forall_nil P | x :: r => Forall_cons x (sh_ind' x) (go r) end) args)
  | SOptT t => Hopt t (sh_ind' t)
  | SVecT l t => Hvec l t (sh_ind' t)
  | SArrT d t => Harr d t (sh_ind' t)
  | SMapT k v => Hmap k v (sh_ind' k) (sh_ind' v)
  end.
End ShInd.

(* the items of a container: spelled out as a sequence, or given in one piece *)
Lemma items_agree : forall t, conv_expanded (expand t) = conv_short t ->
  items_of conv_expanded (expand t) = item_cases (conv_short t).
Proof.
  intros t H. destruct t as [n args|u|l u|d u|k v]; cbn [expand items_of] in *; try (rewrite H; reflexivity).
  (* t = u? : the sequence [null, u] on one side, the optional in one piece on the other *)
  cbn [conv_expanded map] in H. cbn [map]. rewrite <- H. reflexivity.
Qed.

Theorem expanded_spelling_same_type : forall s, conv_expanded (expand s) = conv_short s.
Proof.
  apply sh_ind'.
  - intros n args HF. cbn [expand conv_expanded conv_short]. f_equal. rewrite map_map.
    induction HF as [|x l Hx HF IH]; [reflexivity|]. cbn [map]. rewrite Hx, IH. reflexivity.
  - intros t H. cbn [expand conv_expanded conv_short map]. rewrite H. reflexivity.
  - intros l t H. cbn [expand conv_expanded conv_short]. rewrite (items_agree t H). reflexivity.
  - intros d t H. cbn [expand conv_expanded conv_short]. rewrite (items_agree t H). reflexivity.
  - intros k v Hk Hv. cbn [expand conv_expanded conv_short]. rewrite (items_agree v Hv), Hk. reflexivity.
Qed.
