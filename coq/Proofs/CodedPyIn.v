(* Refinement of the Python CodedInputStream machine (Model/CodedPy.v) to the abstract byte-list reader, for every
   buffer size; truncation theorems for the Python reader. *)
From Coq Require Import List NArith ZArith Bool Lia Arith.
From Coq Require Import ZifyBool ZifyN ZifyNat.
From YV Require Import Base.Wire Proofs.WireProofs Model.CodedCpp Proofs.CodedCppIn Model.CodedPy.
Import ListNotations.
Open Scope N_scope.

Section WithBuf.
Variable bufsize : nat.
Hypothesis bufsize_pos : (0 < bufsize)%nat.

(* the bytes in the buffer were read by the last fill; a fill that came back short saw the end of the stream *)
Definition PInv (s : pin) : Prop :=
  (length (pavail s) <= pcnt s)%nat /\ (pcnt s <= bufsize)%nat /\
  (pavail s = [] \/ pcnt s = bufsize \/ punder s = []).

Lemma pinv_init : forall input, PInv (pin_init input).
Proof. intros. unfold PInv, pin_init. cbn. repeat split; try lia. left. reflexivity. Qed.

Lemma pinv_drop : forall s c, PInv s ->
  PInv (mkPin (skipn c (pavail s)) (punder s) (pcnt s)).
Proof.
  intros s c [H1 [H2 H3]]. unfold PInv. cbn [pavail punder pcnt]. rewrite skipn_length.
  repeat split; try lia. destruct H3 as [H3|[H3|H3]]; [left|right; left|right; right]; try assumption.
  rewrite H3. destruct c; reflexivity.
Qed.

Lemma pinv_tail : forall b r u c, PInv (mkPin (b :: r) u c) -> PInv (mkPin r u c).
Proof. intros b r u c H. exact (pinv_drop _ 1 H). Qed.

(* the resize quirk: only with bytes left over from a fill that came back short, i.e. at the end of the stream *)
Lemma pfill_buferr : forall m s, PInv s -> (0 < length (pavail s))%nat -> (pcnt s < bufsize)%nat ->
  pfill bufsize m s = (PyFault BufferErr, s) /\ punder s = [].
Proof.
  intros m s [H1 [H2 H3]] Ha Hc. unfold pfill.
  assert (E : (Nat.ltb 0 (length (pavail s)) && Nat.ltb (pcnt s) bufsize) = true) by lia.
  rewrite E. split; [reflexivity|].
  destruct H3 as [H3|[H3|H3]]; [rewrite H3 in Ha; cbn in Ha; lia|lia|assumption].
Qed.

Definition fillk (s : pin) : nat := Nat.min (bufsize - length (pavail s)) (length (punder s)).
Definition filled (s : pin) : pin :=
  mkPin (pavail s ++ firstn (fillk s) (punder s)) (skipn (fillk s) (punder s)) (length (pavail s) + fillk s).

Lemma pfill_ok : forall m s, PInv s -> (length (pavail s) = 0 \/ pcnt s = bufsize)%nat ->
  PInv (filled s) /\ ppending (filled s) = ppending s /\
  length (pavail (filled s)) = (length (pavail s) + Nat.min (bufsize - length (pavail s)) (length (punder s)))%nat /\
  pfill bufsize m s =
    (if Nat.ltb 0 m && Nat.ltb (length (pavail (filled s))) m then PyEof else PyOk (filled s), filled s).
Proof.
  intros m s [H1 [H2 H3]] Hc.
  assert (Hlen : length (pavail (filled s)) =
                 (length (pavail s) + Nat.min (bufsize - length (pavail s)) (length (punder s)))%nat).
  { unfold filled, fillk. cbn [pavail]. rewrite app_length, firstn_length. lia. }
  split; [|split; [|split]].
  - unfold PInv, filled, fillk. cbn [pavail punder pcnt]. rewrite app_length, firstn_length.
    repeat split; try lia.
    destruct (Nat.le_ge_cases (bufsize - length (pavail s)) (length (punder s))) as [Hk|Hk].
    + right. left. lia.
    + right. right. rewrite Nat.min_r by assumption. apply skipn_all.
  - unfold ppending, filled. cbn [pavail punder]. rewrite <- app_assoc, firstn_skipn. reflexivity.
  - exact Hlen.
  - unfold pfill.
    assert (E : (Nat.ltb 0 (length (pavail s)) && Nat.ltb (pcnt s) bufsize) = false) by lia.
    rewrite E. fold (fillk s). fold (filled s). rewrite Hlen.
    destruct (Nat.ltb 0 m && Nat.ltb _ m); reflexivity.
Qed.

(* ---------- read_byte ---------- *)

Lemma pfetch_spec : forall s, PInv s ->
  match ppending s with
  | b :: r => exists s', pfetch bufsize s = (PyOk b, s') /\ PInv s' /\ ppending s' = r
  | [] => exists s', pfetch bufsize s = (PyEof, s')
  end.
Proof.
  intros s Hinv. unfold pfetch, ppending. destruct (pavail s) as [|b r] eqn:Ea.
  - cbn [app].
    assert (Hc : (length (pavail s) = 0 \/ pcnt s = bufsize)%nat) by (left; rewrite Ea; reflexivity).
    destruct (pfill_ok 1 s Hinv Hc) as [Hi [Hp [Hl Hf]]]. rewrite Hf, Hl, Ea. cbn [length].
    unfold ppending in Hp. rewrite Ea in Hp. cbn [app] in Hp.
    destruct (punder s) as [|u us] eqn:Eu.
    + cbn [length]. rewrite Nat.min_0_r. cbn. eexists. reflexivity.
    + assert (E : (Nat.ltb 0 1 && Nat.ltb (0 + Nat.min (bufsize - 0) (length (u :: us))) 1) = false).
      { cbn [length]. lia. }
      rewrite E. destruct (pavail (filled s)) as [|b' r'] eqn:Ef.
      * exfalso. rewrite Ea in Hl. cbn [length] in Hl. lia.
      * cbn [app] in Hp. injection Hp as -> Hp. eexists. split; [reflexivity|]. split.
        -- apply (pinv_tail u). rewrite <- Ef. destruct (filled s); exact Hi.
        -- unfold ppending. cbn [pavail punder]. exact Hp.
  - cbn [app]. eexists. split; [reflexivity|]. split.
    + apply (pinv_tail b). rewrite <- Ea. destruct s; exact Hinv.
    + reflexivity.
Qed.

(* ---------- read_unsigned_varint ---------- *)

Lemma pvar_spec : forall fuel s res sh, PInv s -> (length (ppending s) < fuel)%nat ->
  match pvdec (ppending s) with
  | Some (v, r) => exists s', pvar bufsize fuel s res sh = (PyOk (res + v * 2 ^ sh), s') /\ PInv s' /\ ppending s' = r
  | None => exists s', pvar bufsize fuel s res sh = (PyEof, s')
  end.
Proof.
  induction fuel as [|fuel IH]; intros s res sh Hinv Hf; [lia|].
  pose proof (pfetch_spec s Hinv) as Hfe. cbn [pvar].
  destruct (ppending s) as [|b r] eqn:Ep.
  - destruct Hfe as [s' ->]. cbn [pvdec]. eexists. reflexivity.
  - destruct Hfe as [s' [-> [Hi' Hp']]]. cbn [pvdec]. destruct (b <? 128) eqn:Eb.
    + eexists. split; [reflexivity|]. split; assumption.
    + cbn [length] in Hf. assert (Hf' : (length (ppending s') < fuel)%nat) by (rewrite Hp'; lia).
      specialize (IH s' (res + b mod 128 * 2 ^ sh) (sh + 7) Hi' Hf'). rewrite Hp' in IH.
      destruct (pvdec r) as [[v r']|].
      * destruct IH as [s'' [-> [Hi'' Hp'']]]. exists s''. split; [|split; assumption].
        f_equal. f_equal. rewrite N.pow_add_r. change (2 ^ 7) with 128. lia.
      * destruct IH as [s'' ->]. eexists. reflexivity.
Qed.

(* ---------- read(struct) ---------- *)

Lemma punpack_spec : forall k s, PInv s -> (k <= length (pavail s))%nat ->
  exists s', punpack k s = (PyOk (le_dec (firstn k (pavail s))), s') /\ PInv s' /\
             take (N.of_nat k) (ppending s) = Some (firstn k (pavail s), ppending s').
Proof.
  intros k s Hinv Hk. unfold punpack.
  assert (E : Nat.ltb (length (pavail s)) k = false) by lia. rewrite E.
  eexists. split; [reflexivity|]. split; [apply pinv_drop; assumption|].
  unfold ppending. cbn [pavail punder]. apply take_app_le. assumption.
Qed.

(* shared by read and read_view: refill so that c bytes are buffered *)
Lemma pfill_for : forall c s, PInv s -> (length (pavail s) < c)%nat -> (c <= bufsize)%nat ->
  (exists s1, pfill bufsize c s = (PyOk s1, s1) /\ PInv s1 /\ ppending s1 = ppending s /\ (c <= length (pavail s1))%nat)
  \/ ((N.of_nat (length (ppending s)) < N.of_nat c) /\
      exists f s1, pfill bufsize c s = (f, s1) /\ (f = PyEof \/ f = PyFault BufferErr)).
Proof.
  intros c s Hinv Hlt Hcb.
  destruct (Nat.eq_dec (length (pavail s)) 0) as [H0|H0];
    [|destruct (Nat.eq_dec (pcnt s) bufsize) as [Hb|Hb]].
  3: { destruct Hinv as [H1 [H2 H3]].
       destruct (pfill_buferr c s (conj H1 (conj H2 H3))) as [Hf Hu]; [lia|lia|].
       right. split.
       - unfold ppending. rewrite Hu, app_nil_r. lia.
       - eexists. eexists. split; [exact Hf|]. right. reflexivity. }
  all: (assert (Hc : (length (pavail s) = 0 \/ pcnt s = bufsize)%nat) by lia;
        destruct (pfill_ok c s Hinv Hc) as [Hi [Hp [Hl Hf]]]; rewrite Hf;
        destruct (Nat.ltb 0 c && Nat.ltb (length (pavail (filled s))) c) eqn:E;
        [ right; split;
          [ unfold ppending; rewrite app_length; lia
          | eexists; eexists; split; [reflexivity|left; reflexivity] ]
        | left; eexists; split; [reflexivity|]; split; [assumption|]; split; [assumption|lia] ]).
Qed.

Lemma pread_fixed_spec : forall k s, PInv s -> (k <= bufsize)%nat ->
  match take (N.of_nat k) (ppending s) with
  | Some (h, t) => exists s', pread_fixed bufsize k s = (PyOk (le_dec h), s') /\ PInv s' /\ ppending s' = t
  | None => exists f s', pread_fixed bufsize k s = (f, s') /\ (f = PyEof \/ f = PyFault BufferErr)
  end.
Proof.
  intros k s Hinv Hk. unfold pread_fixed.
  destruct (Nat.ltb (length (pavail s)) k) eqn:E.
  - destruct (pfill_for k s Hinv ltac:(lia) Hk) as [[s1 [Hf [Hi [Hp Hl]]]]|[Hshort [f [s1 [Hf Hkind]]]]].
    + rewrite Hf. destruct (punpack_spec k s1 Hi Hl) as [s' [Hu [Hi' Ht]]].
      rewrite <- Hp, Ht. eexists. split; [exact Hu|]. split; [assumption|reflexivity].
    + assert (Hn : take (N.of_nat k) (ppending s) = None) by (apply take_none_iff; assumption).
      rewrite Hn, Hf. destruct Hkind as [-> | ->]; eexists; eexists; (split; [reflexivity|]); [left|right]; reflexivity.
  - destruct (punpack_spec k s Hinv ltac:(lia)) as [s' [Hu [Hi' Ht]]].
    rewrite Ht. eexists. split; [exact Hu|]. split; [assumption|reflexivity].
Qed.

(* ---------- read_view / read_bytearray ---------- *)

Lemma pread_bytes_spec : forall n s, PInv s ->
  match take n (ppending s) with
  | Some (h, t) => exists s', pread_bytes bufsize n s = (PyOk h, s') /\ PInv s' /\ ppending s' = t
  | None => exists f s', pread_bytes bufsize n s = (f, s') /\ (f = PyEof \/ f = PyFault BufferErr)
  end.
Proof.
  intros n s Hinv. unfold pread_bytes.
  destruct (n <=? N.of_nat (length (pavail s))) eqn:E1.
  - (* served from the buffer *)
    assert (Hc : (N.to_nat n <= length (pavail s))%nat) by lia.
    pose proof (take_app_le (pavail s) (punder s) (N.to_nat n) Hc) as Ht.
    rewrite N2Nat.id in Ht. unfold ppending at 1. rewrite Ht.
    eexists. split; [reflexivity|]. split; [apply pinv_drop; assumption|reflexivity].
  - destruct (N.of_nat bufsize <? n) eqn:E2.
    + (* local buffer *)
      unfold ppending at 1. rewrite take_app_ge by lia.
      destruct (N.of_nat (length (punder s)) <? n - N.of_nat (length (pavail s))) eqn:E3.
      * assert (Hn : take (n - N.of_nat (length (pavail s))) (punder s) = None) by (apply take_none_iff; lia).
        rewrite Hn. eexists. eexists. split; [reflexivity|left; reflexivity].
      * set (need := n - N.of_nat (length (pavail s))) in *.
        assert (Hc : (N.to_nat need <= length (punder s))%nat) by lia.
        pose proof (take_app_le (punder s) [] (N.to_nat need) Hc) as Ht.
        rewrite N2Nat.id, !app_nil_r in Ht. rewrite Ht.
        eexists. split; [reflexivity|]. split; [|reflexivity].
        destruct Hinv as [H1 [H2 H3]]. unfold PInv. cbn [pavail punder pcnt length].
        repeat split; try lia. left. reflexivity.
    + (* refill *)
      assert (Hlt : (length (pavail s) < N.to_nat n)%nat) by lia.
      assert (Hcb : (N.to_nat n <= bufsize)%nat) by lia.
      destruct (pfill_for (N.to_nat n) s Hinv Hlt Hcb) as [[s1 [Hf [Hi [Hp Hl]]]]|[Hshort [f [s1 [Hf Hkind]]]]].
      * rewrite Hf. assert (E : Nat.ltb (length (pavail s1)) (N.to_nat n) = false) by lia. rewrite E.
        pose proof (take_app_le (pavail s1) (punder s1) (N.to_nat n) Hl) as Ht.
        rewrite N2Nat.id in Ht. rewrite <- Hp. unfold ppending at 1. rewrite Ht.
        eexists. split; [reflexivity|]. split; [apply pinv_drop; assumption|reflexivity].
      * rewrite N2Nat.id in Hshort.
        assert (Hn : take n (ppending s) = None) by (apply take_none_iff; assumption).
        rewrite Hn, Hf. destruct Hkind as [-> | ->]; eexists; eexists; (split; [reflexivity|]); [left|right]; reflexivity.
Qed.

(* ---------- one operation, a whole script ---------- *)

Definition pop_ok (op : pop) : Prop := match op with PFixed k => (k <= bufsize)%nat | _ => True end.

Theorem pstep_refines : forall s op, PInv s -> pop_ok op ->
  match pastep (ppending s) op with
  | Some (v, r) => exists s', pstep bufsize s op = (PyOk v, s') /\ PInv s' /\ ppending s' = r
  | None => exists f s', pstep bufsize s op = (f, s') /\ (f = PyEof \/ f = PyFault BufferErr)
  end.
Proof.
  intros s op Hinv Hop. destruct op as [| |k|n]; cbn [pastep pstep].
  - pose proof (pfetch_spec s Hinv) as H. destruct (ppending s) as [|b r].
    + destruct H as [s' ->]. eexists. eexists. split; [reflexivity|left; reflexivity].
    + destruct H as [s' [-> [Hi Hp]]]. eexists. split; [reflexivity|]. split; assumption.
  - pose proof (pvar_spec (pfuel_of s) s 0 0 Hinv) as H.
    assert (Hf : (length (ppending s) < pfuel_of s)%nat) by (unfold pfuel_of, ppending; rewrite app_length; lia).
    specialize (H Hf). destruct (pvdec (ppending s)) as [[v r]|].
    + destruct H as [s' [-> [Hi Hp]]]. change (2 ^ 0) with 1. replace (0 + v * 1) with v by lia.
      eexists. split; [reflexivity|]. split; assumption.
    + destruct H as [s' ->]. eexists. eexists. split; [reflexivity|left; reflexivity].
  - pose proof (pread_fixed_spec k s Hinv Hop) as H. destruct (take (N.of_nat k) (ppending s)) as [[h t]|].
    + destruct H as [s' [-> [Hi Hp]]]. eexists. split; [reflexivity|]. split; assumption.
    + destruct H as [f [s' [-> Hk]]]. destruct Hk as [-> | ->]; eexists; eexists; (split; [reflexivity|]); [left|right]; reflexivity.
  - pose proof (pread_bytes_spec n s Hinv) as H. destruct (take n (ppending s)) as [[h t]|].
    + destruct H as [s' [-> [Hi Hp]]]. eexists. split; [reflexivity|]. split; assumption.
    + destruct H as [f [s' [-> Hk]]]. destruct Hk as [-> | ->]; eexists; eexists; (split; [reflexivity|]); [left|right]; reflexivity.
Qed.

Theorem prun_refines : forall ops s, PInv s -> Forall pop_ok ops ->
  map pnorm (prun bufsize s ops) = parun (ppending s) ops.
Proof.
  induction ops as [|op ops IH]; intros s Hinv Hops; [reflexivity|].
  inversion Hops as [|? ? Hop Hops']; subst. cbn [prun parun].
  pose proof (pstep_refines s op Hinv Hop) as H.
  destruct (pastep (ppending s) op) as [[v r]|].
  - destruct H as [s' [-> [Hi Hp]]]. cbn [map pnorm]. rewrite (IH s' Hi Hops'), Hp. reflexivity.
  - destruct H as [f [s' [-> Hk]]]. destruct Hk as [-> | ->]; reflexivity.
Qed.

End WithBuf.

Theorem py_reader_refines : forall bufsize input ops, (0 < bufsize)%nat -> Forall (pop_ok bufsize) ops ->
  map pnorm (prun bufsize (pin_init input) ops) = parun input ops.
Proof.
  intros bufsize input ops Hb Hops.
  assert (Hi : PInv bufsize (pin_init input)) by (apply pinv_init; assumption).
  rewrite (prun_refines bufsize Hb ops (pin_init input) Hi Hops). reflexivity.
Qed.

(* every outcome of the machine that is not a value is one of the two exceptions: no stale byte, no fuel exhaustion *)
Theorem py_reader_outcomes : forall bufsize input ops, (0 < bufsize)%nat -> Forall (pop_ok bufsize) ops ->
  Forall (fun r => match r with PyOk _ | PyEof | PyFault BufferErr => True | _ => False end)
         (prun bufsize (pin_init input) ops).
Proof.
  intros bufsize input ops Hb Hops. pose proof (py_reader_refines bufsize input ops Hb Hops) as H.
  revert H. generalize (prun bufsize (pin_init input) ops). generalize input. clear.
  induction ops as [|op ops IH]; intros inp l H.
  - destruct l; [constructor|discriminate].
  - cbn [parun] in H. destruct (pastep inp op) as [[v r]|].
    + destruct l as [|x l]; [discriminate|]. cbn [map] in H. injection H as Hx Hl. constructor.
      * destruct x as [a| |[]]; try exact I; discriminate.
      * exact (IH r l Hl).
    + destruct l as [|x [|y l]]; try discriminate. cbn [map] in H. injection H as Hx. constructor; [|constructor].
      destruct x as [a| |[]]; try exact I; discriminate.
Qed.

(* ---------- the abstract Python reader on truncated input ---------- *)

Lemma pvdec_prefix : forall p q v r, pvdec (p ++ q) = Some (v, r) ->
  (exists r', pvdec p = Some (v, r') /\ r = r' ++ q) \/ pvdec p = None.
Proof.
  induction p as [|b p IH]; intros q v r H; [right; reflexivity|].
  cbn [app pvdec] in *. destruct (b <? 128).
  - injection H as <- <-. left. eexists. split; reflexivity.
  - destruct (pvdec (p ++ q)) as [[v' r']|] eqn:E; [|discriminate].
    injection H as <- <-. destruct (IH q v' r' E) as [[r'' [H1 H2]]|H1]; rewrite H1.
    + left. eexists. split; [reflexivity|assumption].
    + right. reflexivity.
Qed.

Lemma take_prefix' : forall n p q h t, take n (p ++ q) = Some (h, t) ->
  (exists t', take n p = Some (h, t') /\ t = t' ++ q) \/ take n p = None.
Proof.
  intros n p q h t H.
  destruct (take n p) as [[h' t']|] eqn:E; [|right; reflexivity].
  left. pose proof (take_ext _ _ _ _ q E) as H1. rewrite H in H1. injection H1 as -> ->.
  eexists. split; reflexivity.
Qed.

Lemma pastep_prefix : forall op p q v r, pastep (p ++ q) op = Some (v, r) ->
  (exists r', pastep p op = Some (v, r') /\ r = r' ++ q) \/ pastep p op = None.
Proof.
  intros op p q v r H. destruct op as [| |k|n]; cbn [pastep] in *.
  - destruct p as [|b p]; [right; reflexivity|]. cbn [app] in H. injection H as <- <-.
    left. eexists. split; reflexivity.
  - destruct (pvdec (p ++ q)) as [[v' r']|] eqn:E; [|discriminate].
    injection H as <- <-. destruct (pvdec_prefix _ _ _ _ E) as [[r'' [H1 H2]]|H1]; rewrite H1.
    + left. eexists. split; [reflexivity|assumption].
    + right. reflexivity.
  - destruct (take (N.of_nat k) (p ++ q)) as [[h t]|] eqn:E; [|discriminate].
    injection H as <- <-. destruct (take_prefix' _ _ _ _ _ E) as [[t' [H1 H2]]|H1]; rewrite H1.
    + left. eexists. split; [reflexivity|assumption].
    + right. reflexivity.
  - destruct (take n (p ++ q)) as [[h t]|] eqn:E; [|discriminate].
    injection H as <- <-. destruct (take_prefix' _ _ _ _ _ E) as [[t' [H1 H2]]|H1]; rewrite H1.
    + left. eexists. split; [reflexivity|assumption].
    + right. reflexivity.
Qed.

(* all operations succeed and the input is consumed exactly *)
Fixpoint paexact (l : list N) (ops : list pop) : option (list rval) :=
  match ops with
  | [] => match l with [] => Some [] | _ => None end
  | op :: rest =>
      match pastep l op with
      | Some (v, r) => match paexact r rest with Some vs => Some (v :: vs) | None => None end
      | None => None
      end
  end.

Theorem parun_truncated : forall ops data vs p q,
  paexact data ops = Some vs -> data = p ++ q -> q <> [] ->
  exists k, (k <= length vs)%nat /\ parun p ops = map PyOk (firstn k vs) ++ [PyEof].
Proof.
  induction ops as [|op ops IH]; intros data vs p q Hex Hd Hq.
  - cbn in Hex. destruct data; [|discriminate]. symmetry in Hd. apply app_eq_nil in Hd.
    destruct Hd as [_ Hd]. contradiction.
  - cbn [paexact] in Hex. subst data.
    destruct (pastep (p ++ q) op) as [[v r]|] eqn:E; [|discriminate].
    destruct (paexact r ops) as [vs'|] eqn:E2; [|discriminate]. injection Hex as <-.
    destruct (pastep_prefix _ _ _ _ _ E) as [[r' [H1 H2]]|H1].
    + destruct (IH r vs' r' q E2 H2 Hq) as [k [Hk Hrun]].
      exists (S k). cbn [parun length firstn map app]. rewrite H1, Hrun. split; [lia|reflexivity].
    + exists 0%nat. cbn [parun firstn map app]. rewrite H1. split; [lia|reflexivity].
Qed.

(* The buffered Python reader, for every buffer size, on every strict prefix: a prefix of the values, then an
   exception (EOFError, or the BufferError that _fill_buffer raises in its place). *)
Theorem py_truncated : forall bufsize ops data vs p q, (0 < bufsize)%nat -> Forall (pop_ok bufsize) ops ->
  paexact data ops = Some vs -> data = p ++ q -> q <> [] ->
  exists k, (k <= length vs)%nat /\
            map pnorm (prun bufsize (pin_init p) ops) = map PyOk (firstn k vs) ++ [PyEof].
Proof.
  intros bufsize ops data vs p q Hb Hops Hex Hd Hq.
  destruct (parun_truncated ops data vs p q Hex Hd Hq) as [k [Hk Hrun]].
  exists k. split; [assumption|]. rewrite py_reader_refines by assumption. assumption.
Qed.

Lemma parun_complete : forall ops data vs, paexact data ops = Some vs -> parun data ops = map PyOk vs.
Proof.
  induction ops as [|op ops IH]; intros data vs H.
  - cbn in H. destruct data; [|discriminate]. injection H as <-. reflexivity.
  - cbn [paexact] in H. destruct (pastep data op) as [[v r]|] eqn:E; [|discriminate].
    destruct (paexact r ops) as [vs'|] eqn:E2; [|discriminate]. injection H as <-.
    cbn [parun map]. rewrite E, (IH r vs' E2). reflexivity.
Qed.

Lemma map_pnorm_all_ok : forall (l : list (pyres rval)) vs, map pnorm l = map PyOk vs -> l = map PyOk vs.
Proof.
  induction l as [|x l IH]; intros vs H; destruct vs as [|v vs]; try discriminate; [reflexivity|].
  cbn [map] in *. injection H as Hx Hl. rewrite (IH vs Hl). f_equal.
  destruct x as [a| |[]]; cbn in Hx; congruence.
Qed.

(* on the complete input every value is returned, with no exception at all (the quirk cannot fire) *)
Theorem py_complete : forall bufsize ops data vs, (0 < bufsize)%nat -> Forall (pop_ok bufsize) ops ->
  paexact data ops = Some vs -> prun bufsize (pin_init data) ops = map PyOk vs.
Proof.
  intros bufsize ops data vs Hb Hops H. apply map_pnorm_all_ok.
  rewrite py_reader_refines by assumption. apply parun_complete. assumption.
Qed.

(* the Python abstract varint is the wire varint on bytes *)
Lemma pvdec_vdec : forall l, Forall (fun b => b < 256) l -> pvdec l = vdec l.
Proof.
  induction l as [|b l IH]; intros H; [reflexivity|]. inversion H as [|? ? Hb Hl]; subst.
  cbn [pvdec vdec]. rewrite (IH Hl). destruct (b <? 128) eqn:E.
  - rewrite N.mod_small by lia. reflexivity.
  - destruct (vdec l) as [[v r]|]; [|reflexivity]. f_equal. f_equal.
    assert (b mod 128 = b - 128); [|lia].
    replace b with ((b - 128) + 1 * 128) at 1 by lia. rewrite N.mod_add by lia. apply N.mod_small. lia.
Qed.
