(* The mask/or/shift varint writers of the runtimes (Model.VarintBits) emit Base.Wire.venc for EVERY unsigned value. *)
From Coq Require Import List NArith ZArith Bool Lia.
From Coq Require Import ZifyBool ZifyN ZifyNat.
From YV Require Import Base.Wire Proofs.WireProofs Model.VarintBits.
Import ListNotations.
Local Open Scope N_scope.
Ltac Zify.zify_post_hook ::= Z.div_mod_to_equations.

(* finite sweep over one byte, lifted to every m < 256 *)
Definition byte_sweep (P : N -> bool) : bool := forallb (fun k => P (N.of_nat k)) (seq 0 256).
Lemma byte_sweep_spec : forall P, byte_sweep P = true -> forall m, m < 256 -> P m = true.
Proof.
  intros P H m Hm. unfold byte_sweep in H. rewrite forallb_forall in H.
  rewrite <- (N2Nat.id m). apply H. apply in_seq. lia.
Qed.

Lemma lor_byte_128 : forall m, m < 256 -> N.lor m 128 = m mod 128 + 128.
Proof.
  intros m Hm. apply N.eqb_eq.
  apply (byte_sweep_spec (fun m => N.lor m 128 =? m mod 128 + 128)); [vm_compute; reflexivity|exact Hm].
Qed.

Lemma cpp_byte : forall n, N.lor (n mod 256) 128 = n mod 128 + 128.
Proof.
  intros n. rewrite lor_byte_128 by (apply N.mod_lt; lia).
  f_equal. lia.
Qed.

Lemma py_byte : forall n, N.lor (N.land n 127) 128 = n mod 128 + 128.
Proof.
  intros n. change 127 with (N.ones 7). rewrite N.land_ones. change (2 ^ 7) with 128.
  assert (H : n mod 128 < 256) by (pose proof (N.mod_lt n 128); lia).
  rewrite lor_byte_128 by exact H. f_equal. rewrite N.mod_mod by lia. reflexivity.
Qed.

Lemma shiftr7 : forall n, N.shiftr n 7 = n / 128.
Proof. intros n. rewrite N.shiftr_div_pow2. reflexivity. Qed.

Lemma cpp_venc_fuel_eq : forall fuel n, n < 2 ^ N.of_nat fuel \/ n < 128 -> cpp_venc_fuel fuel n = venc_fuel fuel n.
Proof.
  induction fuel as [|f IH]; intros n Hn.
  - cbn [cpp_venc_fuel venc_fuel]. f_equal. apply N.mod_small.
    destruct Hn as [Hn|Hn]; [change (2 ^ N.of_nat 0) with 1 in Hn|]; lia.
  - cbn [cpp_venc_fuel venc_fuel]. destruct (127 <? n) eqn:E.
    + assert (E' : (n <? 128) = false) by lia. rewrite E', cpp_byte, shiftr7. f_equal. apply IH.
      destruct Hn as [Hn|Hn]; [|lia]. left.
      rewrite Nat2N.inj_succ, N.pow_succ_r' in Hn.
      assert (Hp : 0 < 2 ^ N.of_nat f) by (apply N.neq_0_lt_0, N.pow_nonzero; lia).
      apply N.div_lt_upper_bound; lia.
    + assert (E' : (n <? 128) = true) by lia. rewrite E'. f_equal. apply N.mod_small. lia.
Qed.

Theorem cpp_venc_correct : forall n, cpp_venc n = venc n.
Proof.
  intros n. unfold cpp_venc, venc. apply cpp_venc_fuel_eq. left.
  rewrite N2Nat.id. destruct n as [|p]; [reflexivity|]. apply N.size_gt.
Qed.

Lemma py_venc_fuel_eq : forall fuel n, py_venc_fuel fuel n = venc_fuel fuel n.
Proof.
  induction fuel as [|f IH]; intros n; cbn [py_venc_fuel venc_fuel]; [reflexivity|].
  destruct (n <? 128); [reflexivity|]. rewrite py_byte, shiftr7, IH. reflexivity.
Qed.

Theorem py_venc_correct : forall n, py_venc n = venc n.
Proof. intros n. unfold py_venc, venc. apply py_venc_fuel_eq. Qed.

Example varint_bits_nonvacuous : cpp_venc 300 = [172; 2] /\ py_venc (2 ^ 64 - 1) = venc (2 ^ 64 - 1) /\ length (cpp_venc (2 ^ 64 - 1)) = 10%nat.
Proof. vm_compute. repeat split. Qed.

Print Assumptions cpp_venc_correct.
Print Assumptions py_venc_correct.
