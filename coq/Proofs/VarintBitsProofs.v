(* The mask/or/shift varint writers of the runtimes (Model.VarintBits) emit Base.Wire.venc for EVERY unsigned value. *)
From Coq Require Import List NArith ZArith Bool Lia.
From Coq Require Import ZifyBool ZifyN ZifyNat.
From YV Require Import Base.Wire Proofs.WireProofs Model.VarintBits.
Import ListNotations.
Local Open Scope N_scope.
Ltac Zify.zify_post_hook ::= Z.div_mod_to_equations.

(* finite sweep over one byte, lifted to every m < 256 *)
Definition byte_sweep (P : N -> bool) : bool := forallb (fun k => P (N.of_nat k)) (seq 0 256).
Lemma byte_sweep_spec : forall P, byte_sweep P = true -> forall m, m < 256 -> P m = true.
Proof.
  intros P H m Hm. unfold byte_sweep in H. rewrite forallb_forall in H.
  rewrite <- (N2Nat.id m). apply H. apply in_seq. lia.
Qed.

Lemma lor_byte_128 : forall m, m < 256 -> N.lor m 128 = m mod 128 + 128.
Proof.
  intros m Hm. apply N.eqb_eq.
  apply (byte_sweep_spec (fun m => N.lor m 128 =? m mod 128 + 128)); [vm_compute; reflexivity|exact Hm].
Qed.

Lemma cpp_byte : forall n, N.lor (n mod 256) 128 = n mod 128 + 128.
Proof.
  intros n. rewrite lor_byte_128 by (apply N.mod_lt; lia).
  f_equal. lia.
Qed.

Lemma py_byte : forall n, N.lor (N.land n 127) 128 = n mod 128 + 128.
Proof.
  intros n. change 127 with (N.ones 7). rewrite N.land_ones. change (2 ^ 7) with 128.
  assert (H : n mod 128 < 256) by (pose proof (N.mod_lt n 128); lia).
  rewrite lor_byte_128 by exact H. f_equal. rewrite N.mod_mod by lia. reflexivity.
Qed.

Lemma shiftr7 : forall n, N.shiftr n 7 = n / 128.
Proof. intros n. rewrite N.shiftr_div_pow2. reflexivity. Qed.

Lemma cpp_venc_fuel_eq : forall fuel n, n < 2 ^ N.of_nat fuel \/ n < 128 -> cpp_venc_fuel fuel n = venc_fuel fuel n.
Proof.
  induction fuel as [|f IH]; intros n Hn.
  - cbn [cpp_venc_fuel venc_fuel]. f_equal. apply N.mod_small.
    destruct Hn as [Hn|Hn]; [change (2 ^ N.of_nat 0) with 1 in Hn|]; lia.
  - cbn [cpp_venc_fuel venc_fuel]. destruct (127 <? n) eqn:E.
    + assert (E' : (n <? 128) = false) by lia. rewrite E', cpp_byte, shiftr7. f_equal. apply IH.
      destruct Hn as [Hn|Hn]; [|lia]. left.
      rewrite Nat2N.inj_succ, N.pow_succ_r' in Hn.
      assert (Hp : 0 < 2 ^ N.of_nat f) by (apply N.neq_0_lt_0, N.pow_nonzero; lia).
      apply N.div_lt_upper_bound; lia.
    + assert (E' : (n <? 128) = true) by lia. rewrite E'. f_equal. apply N.mod_small. lia.
Qed.

Theorem cpp_venc_correct : forall n, cpp_venc n = venc n.
Proof.
  intros n. unfold cpp_venc, venc. apply cpp_venc_fuel_eq. left.
  rewrite N2Nat.id. destruct n as [|p]; [reflexivity|]. apply N.size_gt.
Qed.

Lemma py_venc_fuel_eq : forall fuel n, py_venc_fuel fuel n = venc_fuel fuel n.
Proof.
  induction fuel as [|f IH]; intros n; cbn [py_venc_fuel venc_fuel]; [reflexivity|].
  destruct (n <? 128); [reflexivity|]. rewrite py_byte, shiftr7, IH. reflexivity.
Qed.

Theorem py_venc_correct : forall n, py_venc n = venc n.
Proof. intros n. unfold py_venc, venc. apply py_venc_fuel_eq. Qed.

(* ---------- the or/shift reader ---------- *)

(* disjoint bits: or is addition *)
Lemma lor_shifted : forall result x shift, result < 2 ^ shift ->
  N.lor result (N.shiftl x shift) = result + x * 2 ^ shift.
Proof.
  intros result x shift H.
  assert (D : N.land result (N.shiftl x shift) = 0).
  { apply N.bits_inj. intros n. rewrite N.land_spec, N.bits_0.
    destruct (N.lt_ge_cases n shift) as [Hlt|Hge].
    - rewrite N.shiftl_spec_low by exact Hlt. apply andb_false_r.
    - assert (R : N.testbit result n = false).
      { rewrite <- (N.mod_small result (2 ^ shift) H). apply N.mod_pow2_bits_high. exact Hge. }
      rewrite R. reflexivity. }
  rewrite <- N.lxor_lor by exact D. rewrite <- N.add_nocarry_lxor by exact D.
  rewrite N.shiftl_mul_pow2. reflexivity.
Qed.

Lemma land_127 : forall b, N.land b 127 = b mod 128.
Proof. intros b. change 127 with (N.ones 7). rewrite N.land_ones. reflexivity. Qed.

Lemma vdec_acc_spec : forall l shift result, all_bytes l = true -> result < 2 ^ shift ->
  vdec_acc l shift result =
    match vdec l with Some (v, r) => Some (result + v * 2 ^ shift, r) | None => None end.
Proof.
  induction l as [|b l IH]; intros shift result Hb Hr; [reflexivity|].
  cbn [all_bytes forallb] in Hb. apply andb_true_iff in Hb. destruct Hb as [Hb Hl].
  unfold is_byte in Hb. apply N.ltb_lt in Hb.
  cbn [vdec_acc vdec]. rewrite land_127, (lor_shifted result (b mod 128) shift Hr).
  destruct (b <? 128) eqn:E.
  - apply N.ltb_lt in E. rewrite N.mod_small by exact E. reflexivity.
  - apply N.ltb_ge in E.
    assert (Em : b mod 128 = b - 128) by (symmetry; apply N.mod_unique with (q := 1); lia).
    rewrite Em.
    assert (Hp : 2 ^ (shift + 7) = 2 ^ shift * 128) by (rewrite N.pow_add_r; reflexivity).
    rewrite IH; [| exact Hl | rewrite Hp; nia].
    destruct (vdec l) as [[v r]|]; [|reflexivity].
    f_equal. f_equal. rewrite Hp. nia.
Qed.

Theorem vdec_bits_correct : forall l, all_bytes l = true -> vdec_bits l = vdec l.
Proof.
  intros l H. unfold vdec_bits. rewrite vdec_acc_spec; [|exact H|reflexivity].
  destruct (vdec l) as [[v r]|]; [|reflexivity]. f_equal. f_equal. change (2 ^ 0) with 1. lia.
Qed.

Corollary vdec_bits_venc : forall n r, all_bytes r = true -> vdec_bits (venc n ++ r) = Some (n, r).
Proof.
  intros n r Hr. rewrite vdec_bits_correct; [apply vdec_venc|].
  unfold all_bytes. rewrite forallb_app. apply andb_true_iff. split; [apply venc_bytes|exact Hr].
Qed.

Example varint_bits_nonvacuous : cpp_venc 300 = [172; 2] /\ py_venc (2 ^ 64 - 1) = venc (2 ^ 64 - 1) /\ length (cpp_venc (2 ^ 64 - 1)) = 10%nat.
Proof. vm_compute. repeat split. Qed.

Print Assumptions cpp_venc_correct.
Print Assumptions py_venc_correct.
Print Assumptions vdec_bits_correct.
