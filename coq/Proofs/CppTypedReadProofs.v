(* The typed C++ reader program reads back the encoding of every value - fast paths included - over byte lists, and (by the
   generic refinement of reader programs) over the buffered stream for every buffer size. *)
From Coq Require Import List NArith ZArith Bool Lia Arith.
From Coq Require Import ZifyBool ZifyN ZifyNat.
From YV Require Import Base.Wire Proofs.WireProofs Model.Binary Proofs.BinaryProofs Model.CodedCpp Proofs.CodedCppIn
  Proofs.CodedCppOut Proofs.Truncation Proofs.CodedCppRoundtrip Model.CppLayout Proofs.CppLayoutProofs Model.CppTyped Proofs.CppTypedProofs
  Model.CppReadProg Proofs.CppReadProofs Model.CppTypedRead.
Import ListNotations.
Open Scope N_scope.

Lemma arun_cbind : forall A B (p : cprog A) (f : A -> cprog B) l,
  arun_c (cbind p f) l = match arun_c p l with
                         | CVal a r => arun_c (f a) r
                         | CEnd => CEnd | CBad => CBad | CMalformed => CMalformed | CNotFinished => CNotFinished end.
Proof.
  intros A B p f. induction p as [a| |op k IH]; intros l; cbn [cbind arun_c]; try reflexivity.
  destruct (astep l op) as [v r| | |]; [apply IH|reflexivity|reflexivity|reflexivity].
Qed.

Lemma arun_crep : forall (p : cprog val) (g : val -> list N) xs,
  (forall x, In x xs -> forall rest, arun_c p (g x ++ rest) = CVal x rest) ->
  forall rest, arun_c (crep (length xs) p) (concat (map g xs) ++ rest) = CVal xs rest.
Proof.
  intros p g xs. induction xs as [|x xs IH]; intros H rest; [reflexivity|].
  cbn [length crep map concat]. rewrite <- app_assoc, arun_cbind, (H x (or_introl eq_refl)).
  rewrite arun_cbind, IH by (intros y Hy; apply H; right; exact Hy). reflexivity.
Qed.

(* ---------- single operations ---------- *)
Lemma run_cbyte : forall A (k : N -> cprog A) b r, arun_c (c_byte k) (b :: r) = arun_c (k b) r.
Proof. reflexivity. Qed.

Lemma run_cvar : forall A w (k : N -> cprog A) n r, n < 2 ^ w -> (length (venc n) <= max_varint w)%nat ->
  arun_c (c_var w k) (venc n ++ r) = arun_c (k n) r.
Proof.
  intros A w k n r Hn Hl. unfold c_var. cbn [arun_c astep].
  rewrite (vdecb_of_vdec (max_varint w) (venc n ++ r) n r (vdec_venc n r)) by (rewrite app_length; lia).
  rewrite N.mod_small by assumption. reflexivity.
Qed.

Lemma run_cvar64 : forall A (k : N -> cprog A) n r, n < 2 ^ 64 -> arun_c (c_var 64 k) (venc n ++ r) = arun_c (k n) r.
Proof. intros. apply run_cvar; [assumption|]. pose proof (venc_length_64 n H). cbn. lia. Qed.

Lemma run_cvar32 : forall A (k : N -> cprog A) n r, n < 2 ^ 32 -> arun_c (c_var 32 k) (venc n ++ r) = arun_c (k n) r.
Proof. intros. apply run_cvar; [assumption|]. pose proof (venc_length_32 n H). cbn. lia. Qed.

Lemma run_cbytes : forall A (k : list N -> cprog A) l r, arun_c (c_bytes (N.of_nat (length l)) k) (l ++ r) = arun_c (k l) r.
Proof. intros. unfold c_bytes. cbn [arun_c astep]. rewrite take_app. reflexivity. Qed.

Lemma run_cdims : forall sh rest, forallb (fun d => d <? 2 ^ 64) sh = true ->
  arun_c (crep (length sh) (c_var 64 (fun d => CRet d))) (concat (map venc sh) ++ rest) = CVal sh rest.
Proof.
  induction sh as [|d sh IH]; intros rest H; [reflexivity|]. cbn [forallb] in H. apply andb_true_iff in H. destruct H as [Hd Hs].
  cbn [length crep map concat]. rewrite <- app_assoc, arun_cbind, run_cvar64 by lia. cbn [arun_c]. rewrite arun_cbind, (IH rest Hs). reflexivity.
Qed.

Lemma firstn_skipn_app : forall (a b : list N) n, length a = n -> firstn n (a ++ b) = a /\ skipn n (a ++ b) = b.
Proof.
  intros a b n <-. split.
  - rewrite firstn_app, Nat.sub_diag, firstn_all. cbn. apply app_nil_r.
  - rewrite skipn_app, Nat.sub_diag, skipn_all. reflexivity.
Qed.

(* ---------- integers and other primitives ---------- *)
Lemma cread_int_ok : forall p z rest, int_ok p z = true -> arun_c (cpp_read_int p) (enc_int p z ++ rest) = CVal (VInt z) rest.
Proof.
  intros p z rest H. unfold int_ok, cpp_read_int, enc_int in *.
  destruct (int_width p) as [[s w]|] eqn:Ew; [|discriminate].
  assert (Hw : w = 1 \/ w = 8 \/ w = 16 \/ w = 32 \/ w = 64) by (destruct p; cbn in Ew; inversion Ew; subst; lia).
  destruct (w <=? 8) eqn:E8.
  - cbn [app]. rewrite run_cbyte. cbn [arun_c]. destruct s.
    + assert (w = 8) by (destruct p; cbn in Ew; inversion Ew; subst; lia). subst w.
      unfold in_range_s in H. change (2 ^ (Z.of_N 8 - 1))%Z with 128%Z in H.
      rewrite to_signed_unsigned_8 by lia. reflexivity.
    + unfold in_range_u in H.
      assert (Hz : (0 <= z < 256)%Z).
      { destruct Hw as [->|[->|Hw]]; [change (2 ^ Z.of_N 1)%Z with 2%Z in H; lia
                                     |change (2 ^ Z.of_N 8)%Z with 256%Z in H; lia|lia]. }
      rewrite to_unsigned_small by lia. rewrite Z2N.id by lia. reflexivity.
  - assert (Hn : (if s then zz_enc z else Z.to_N z) < 2 ^ w).
    { destruct s.
      - apply zz_enc_range; [lia|assumption].
      - unfold in_range_u in H. assert (Hz : (0 <= z < 2 ^ Z.of_N w)%Z) by lia. rewrite <- (Z2N.id z) in Hz by lia.
        change 2%Z with (Z.of_N 2) in Hz. rewrite <- N2Z.inj_pow in Hz. lia. }
    assert (H64 : 2 ^ w <= 2 ^ 64) by (apply N.pow_le_mono_r; lia).
    assert (Hdec : (if s then zz_dec (zz_enc z) else Z.of_N (Z.to_N z)) = z).
    { destruct s; [apply zz_dec_enc|]. unfold in_range_u in H. rewrite Z2N.id by lia. reflexivity. }
    assert (Ek : forall ww, (ww = 32 /\ w <= 32) \/ ww = 64 ->
                 arun_c (c_var ww (fun n => CRet (VInt (if s then zz_dec n else Z.of_N n))))
                        ((if s then venc (zz_enc z) else venc (Z.to_N z)) ++ rest) = CVal (VInt z) rest).
    { intros ww Hww. replace (if s then venc (zz_enc z) else venc (Z.to_N z)) with (venc (if s then zz_enc z else Z.to_N z)) by (destruct s; reflexivity).
      destruct Hww as [[-> Hle]| ->].
      - rewrite run_cvar32 by (assert (2 ^ w <= 2 ^ 32) by (apply N.pow_le_mono_r; lia); lia). cbn [arun_c].
        destruct s; rewrite Hdec; reflexivity.
      - rewrite run_cvar64 by lia. cbn [arun_c]. destruct s; rewrite Hdec; reflexivity. }
    destruct p; try (apply Ek; right; reflexivity); cbn in Ew; inversion Ew; subst; cbn [N.leb]; apply Ek;
      try (left; split; [reflexivity|lia]); right; reflexivity.
Qed.

Lemma cread_prim_ok : forall p v rest, prim_ok p v = true -> vsmall v = true ->
  arun_c (cpp_read_prim p) (enc_prim enc_int p v ++ rest) = CVal v rest.
Proof.
  intros p v rest H Hs.
  destruct p; destruct v; cbn [prim_ok] in H; try discriminate; cbn [cpp_read_prim enc_prim];
    try (apply cread_int_ok; assumption).
  - change 4 with (N.of_nat (length (le_enc 4 n))) at 1. rewrite run_cbytes. cbn [arun_c].
    rewrite le_dec_enc by (change (256 ^ N.of_nat 4) with (2 ^ 32); lia). reflexivity.
  - change 8 with (N.of_nat (length (le_enc 8 n))) at 1. rewrite run_cbytes. cbn [arun_c].
    rewrite le_dec_enc by (change (256 ^ N.of_nat 8) with (2 ^ 64); lia). reflexivity.
  - apply andb_true_iff in H. destruct H as [H1 H2].
    replace 8 with (N.of_nat (length (le_enc 4 re ++ le_enc 4 im))) at 1 by (rewrite app_length, !le_enc_length; reflexivity).
    rewrite run_cbytes. cbn [arun_c].
    destruct (firstn_skipn_app (le_enc 4 re) (le_enc 4 im) 4 (le_enc_length 4 re)) as [-> ->].
    rewrite !le_dec_enc by (change (256 ^ N.of_nat 4) with (2 ^ 32); lia). reflexivity.
  - apply andb_true_iff in H. destruct H as [H1 H2].
    replace 16 with (N.of_nat (length (le_enc 8 re ++ le_enc 8 im))) at 1 by (rewrite app_length, !le_enc_length; reflexivity).
    rewrite run_cbytes. cbn [arun_c].
    destruct (firstn_skipn_app (le_enc 8 re) (le_enc 8 im) 8 (le_enc_length 8 re)) as [-> ->].
    rewrite !le_dec_enc by (change (256 ^ N.of_nat 8) with (2 ^ 64); lia). reflexivity.
  - cbn [vsmall] in Hs. rewrite <- app_assoc, run_cvar64 by lia. rewrite run_cbytes. reflexivity.
Qed.

(* unfolding equations of the encoding *)
Lemma ec_prim : forall p v, enc (TPrim p) v = enc_prim enc_int p v. Proof. reflexivity. Qed.
Lemma ec_enum : forall b z, enc (TEnum b) (VInt z) = enc_int b z. Proof. reflexivity. Qed.
Lemma ec_none : forall e, enc (TOpt e) VNone = [0]. Proof. reflexivity. Qed.
Lemma ec_some : forall e x, enc (TOpt e) (VSome x) = 1 :: enc e x. Proof. reflexivity. Qed.
Lemma ec_unone : forall hn cs, enc (TUnion hn cs) VNone = venc 0. Proof. reflexivity. Qed.
Lemma ec_case : forall hn cs i x, enc (TUnion hn cs) (VCase i x) =
  venc (i + if hn then 1 else 0) ++ pick (fun c => enc c x) [] cs i. Proof. reflexivity. Qed.
Lemma ec_vec : forall e xs, enc (TVec e) (VSeq xs) = venc (N.of_nat (length xs)) ++ concat (map (enc e) xs). Proof. reflexivity. Qed.
Lemma ec_fixvec : forall n e xs, enc (TFixVec n e) (VSeq xs) = concat (map (enc e) xs). Proof. reflexivity. Qed.
Lemma ec_arr : forall r e sh xs, enc (TArr r e) (VArr sh xs) = concat (map venc sh) ++ concat (map (enc e) xs). Proof. reflexivity. Qed.
Lemma ec_fixarr : forall d e sh xs, enc (TFixArr d e) (VArr sh xs) = concat (map (enc e) xs). Proof. reflexivity. Qed.
Lemma ec_dynarr : forall e sh xs, enc (TDynArr e) (VArr sh xs) =
  venc (N.of_nat (length sh)) ++ concat (map venc sh) ++ concat (map (enc e) xs). Proof. reflexivity. Qed.
Lemma ec_map : forall k e kvs, enc (TMap k e) (VMapv kvs) =
  venc (N.of_nat (length kvs)) ++ concat (map (fun kv => enc k (fst kv) ++ enc e (snd kv)) kvs). Proof. reflexivity. Qed.
Lemma ec_rec : forall fs xs, enc (TRec fs) (VSeq xs) = enc_fields enc fs xs. Proof. reflexivity. Qed.

(* ---------- the round trip, for the program with and without fast paths ---------- *)
Definition CRT (t : ty) : Prop := forall fast v rest, has_type t v = true -> vsmall v = true ->
  arun_c (cpp_read' fast t) (enc t v ++ rest) = CVal v rest.

Lemma citems_rt : forall fast e xs rest, CRT e -> forallb (has_type e) xs = true -> forallb vsmall xs = true ->
  arun_c (crep (length xs) (cpp_read' fast e)) (concat (map (enc e) xs) ++ rest) = CVal xs rest.
Proof.
  intros fast e xs rest IH H Hs. apply arun_crep. intros x Hin r. rewrite forallb_forall in H, Hs. apply IH; [apply H|apply Hs]; exact Hin.
Qed.

Lemma ts_items_len : forall e xs s a, ts true e = true -> forallb (has_type e) xs = true -> layout e = Some (s, a) ->
  N.of_nat (length (concat (map (enc e) xs))) = N.of_nat (length xs) * s.
Proof.
  intros e xs s a Hts Hall Hl. induction xs as [|x xs IH]; [cbn; lia|].
  cbn [forallb] in Hall. apply andb_true_iff in Hall. destruct Hall as [Hx Hxs].
  cbn [map concat length]. rewrite app_length, Nat2N.inj_add, (IH Hxs).
  destruct (ts_size e x Hts Hx) as [s' [a' [Hl' Hlen]]]. rewrite Hl in Hl'. injection Hl' as <- <-. lia.
Qed.

Lemma ts_has_layout : forall t, ts true t = true -> layout t <> None.
Proof.
  apply (ty_ind' (fun t => ts true t = true -> layout t <> None)).
  - intros p H. cbn [ts] in H. destruct p; cbn in *; try discriminate; congruence.
  - intros b H. discriminate.
  - intros e _ H. discriminate.
  - intros hn cs _ H. discriminate.
  - intros e _ H. discriminate.
  - intros n e IH H. cbn [ts] in H. apply andb_true_iff in H. destruct H as [H _]. specialize (IH H). cbn [layout].
    destruct (layout e) as [[s a]|]; [|congruence]. destruct (n =? 0); congruence.
  - intros r e _ H. discriminate.
  - intros d e IH H. cbn [ts] in H. apply andb_true_iff in H. destruct H as [H _]. specialize (IH H). cbn [layout].
    destruct (layout e) as [[s a]|]; [|congruence]. destruct (prodN d =? 0); congruence.
  - intros e _ H. discriminate.
  - intros k e _ _ H. discriminate.
  - intros fs _ H. cbn [ts] in H. apply andb_true_iff in H. destruct H as [_ H].
    destruct (layout (TRec fs)); [congruence|discriminate].
Qed.

Lemma cdata_rt : forall fast e xs count rest, CRT e -> forallb (has_type e) xs = true -> forallb vsmall xs = true ->
  N.of_nat (length xs) = count ->
  arun_c (cread_data fast e (cpp_read' false e) (cpp_read' fast e) count) (concat (map (enc e) xs) ++ rest) = CVal xs rest.
Proof.
  intros fast e xs count rest IH Hall Hs Hc. unfold cread_data. subst count. rewrite Nat2N.id.
  destruct (fast && ts true e) eqn:Ef; [|apply citems_rt; assumption].
  apply andb_true_iff in Ef. destruct Ef as [_ Hts].
  destruct xs as [|x0 xs0] eqn:Exs.
  - (* no element: the size is irrelevant *)
    cbn [map concat app length]. destruct (layout e) as [[s a]|] eqn:El.
    + replace (N.of_nat 0 * s) with 0 by lia. unfold c_bytes. cbn [arun_c astep]. rewrite take_0. reflexivity.
    + exfalso. exact (ts_has_layout e Hts El).
  - rewrite <- Exs in *. assert (Hx0 : has_type e x0 = true) by (subst xs; cbn [forallb] in Hall; apply andb_true_iff in Hall; apply Hall).
    destruct (ts_size e x0 Hts Hx0) as [s [a [El _]]]. rewrite El.
    rewrite <- (ts_items_len e xs s a Hts Hall El), run_cbytes.
    pose proof (citems_rt false e xs [] IH Hall Hs) as H. rewrite app_nil_r in H. rewrite H. reflexivity.
Qed.

Lemma cfields_rt : forall fast fs vs rest, Forall CRT fs -> all2 has_type fs vs = true -> forallb vsmall vs = true ->
  arun_c (cread_fields (cpp_read' fast) fs) (enc_fields enc fs vs ++ rest) = CVal vs rest.
Proof.
  intros fast fs vs rest IH. revert vs rest. induction IH as [|f fs Hf Hfs IHfs]; intros vs rest H Hs;
    destruct vs as [|x xs]; cbn [all2] in H; try discriminate; cbn [cread_fields enc_fields]; [reflexivity|].
  apply andb_true_iff in H. destruct H as [Hx Hxs]. cbn [forallb] in Hs. apply andb_true_iff in Hs. destruct Hs as [Vx Vxs].
  rewrite <- app_assoc, arun_cbind, (Hf fast x _ Hx Vx), arun_cbind, (IHfs xs rest Hxs Vxs). reflexivity.
Qed.

Theorem cpp_read_roundtrip' : forall t, CRT t.
Proof.
  apply ty_ind'.
  - intros p fast v rest H Hs. cbn [has_type] in H. cbn [cpp_read']. rewrite ec_prim. apply cread_prim_ok; assumption.
  - intros b fast v rest H Hs. destruct v; cbn [has_type] in H; try discriminate. cbn [cpp_read']. rewrite ec_enum. apply cread_int_ok. assumption.
  - intros e IH fast v rest H Hs. destruct v; cbn [has_type] in H; try discriminate; cbn [cpp_read'].
    + rewrite ec_none. cbn [app]. rewrite run_cbyte. reflexivity.
    + cbn [vsmall] in Hs. rewrite ec_some. cbn [app]. rewrite run_cbyte. cbn [N.eqb]. rewrite arun_cbind, (IH fast v rest H Hs). reflexivity.
  - intros hn cs IH fast v rest H Hs. destruct v; cbn [has_type] in H; try discriminate; cbn [cpp_read'].
    + subst hn. rewrite ec_unone, run_cvar64 by lia. reflexivity.
    + cbn [vsmall] in Hs. apply andb_true_iff in Hs. destruct Hs as [Hi Hv].
      rewrite ec_case, <- app_assoc, run_cvar64 by (destruct hn; lia).
      assert (E0 : (hn && (i + (if hn then 1 else 0) =? 0)) = false) by (destruct hn; cbn; lia).
      rewrite E0. replace (i + (if hn then 1 else 0) - (if hn then 1 else 0)) with i by (destruct hn; lia).
      rewrite arun_cbind.
      assert (Hp : arun_c (pick (fun c => cpp_read' fast c) CFail cs i) (pick (fun c => enc c v) [] cs i ++ rest) = CVal v rest).
      { clear E0 Hi. revert i H. induction IH as [|c cs Hc Hcs IHcs]; intros i H; cbn [pick] in *; [discriminate|].
        destruct (i =? 0); [apply Hc; assumption|apply IHcs; assumption]. }
      rewrite Hp. reflexivity.
  - intros e IH fast v rest H Hs. destruct v; cbn [has_type] in H; try discriminate. cbn [cpp_read' vsmall] in *.
    apply andb_true_iff in Hs. destruct Hs as [Hl Hv].
    rewrite ec_vec, <- app_assoc, run_cvar64 by lia. rewrite arun_cbind, (cdata_rt fast e vs _ rest IH H Hv eq_refl). reflexivity.
  - intros n e IH fast v rest H Hs. destruct v; cbn [has_type] in H; try discriminate. apply andb_true_iff in H. destruct H as [Hn H].
    cbn [cpp_read' vsmall] in *. apply andb_true_iff in Hs. destruct Hs as [_ Hv]. apply N.eqb_eq in Hn.
    rewrite ec_fixvec, arun_cbind, (cdata_rt fast e vs n rest IH H Hv Hn). reflexivity.
  - intros r e IH fast v rest H Hs. destruct v; cbn [has_type] in H; try discriminate.
    apply andb_true_iff in H. destruct H as [H Hall]. apply andb_true_iff in H. destruct H as [Hr Hn].
    apply N.eqb_eq in Hr. apply N.eqb_eq in Hn. subst r. cbn [cpp_read' vsmall] in *.
    apply andb_true_iff in Hs. destruct Hs as [Hs Hv]. apply andb_true_iff in Hs. destruct Hs as [_ Hd].
    rewrite ec_arr, Nat2N.id, <- app_assoc, arun_cbind, (run_cdims shape _ Hd), arun_cbind.
    rewrite (cdata_rt fast e vs (prodN shape) rest IH Hall Hv Hn). reflexivity.
  - intros d e IH fast v rest H Hs. destruct v; cbn [has_type] in H; try discriminate.
    apply andb_true_iff in H. destruct H as [H Hall]. apply andb_true_iff in H. destruct H as [Hsh Hn].
    apply list_eq_N_eq in Hsh. subst shape. apply N.eqb_eq in Hn. cbn [cpp_read' vsmall] in *.
    apply andb_true_iff in Hs. destruct Hs as [_ Hv].
    rewrite ec_fixarr, arun_cbind, (cdata_rt fast e vs (prodN d) rest IH Hall Hv Hn). reflexivity.
  - intros e IH fast v rest H Hs. destruct v; cbn [has_type] in H; try discriminate.
    apply andb_true_iff in H. destruct H as [Hn Hall]. apply N.eqb_eq in Hn. cbn [cpp_read' vsmall] in *.
    apply andb_true_iff in Hs. destruct Hs as [Hs Hv]. apply andb_true_iff in Hs. destruct Hs as [Hl Hd].
    rewrite ec_dynarr, <- !app_assoc, run_cvar64 by lia. rewrite Nat2N.id, arun_cbind, (run_cdims shape _ Hd), arun_cbind.
    rewrite (cdata_rt fast e vs (prodN shape) rest IH Hall Hv Hn). reflexivity.
  - intros k e IHk IHe fast v rest H Hs. destruct v; cbn [has_type] in H; try discriminate. cbn [cpp_read' vsmall] in *.
    apply andb_true_iff in Hs. destruct Hs as [Hl Hv].
    rewrite ec_map, <- app_assoc, run_cvar64 by lia. rewrite Nat2N.id, arun_cbind.
    assert (Hm : arun_c (crep (length kvs) (cbind (cpp_read' fast k) (fun a => cbind (cpp_read' fast e) (fun b => CRet (a, b)))))
                   (concat (map (fun kv => enc k (fst kv) ++ enc e (snd kv)) kvs) ++ rest) = CVal kvs rest).
    { clear Hl. revert rest. induction kvs as [|[a b] kvs IHl]; intros rest; [reflexivity|].
      cbn [forallb fst snd] in H, Hv. apply andb_true_iff in H. destruct H as [H1 H2]. apply andb_true_iff in H1. destruct H1 as [Ha Hb].
      apply andb_true_iff in Hv. destruct Hv as [V1 V2]. apply andb_true_iff in V1. destruct V1 as [Va Vb].
      cbn [length crep map concat fst snd]. rewrite <- !app_assoc, !arun_cbind, (IHk fast a _ Ha Va), arun_cbind, (IHe fast b _ Hb Vb).
      cbn [arun_c]. rewrite arun_cbind, (IHl H2 V2). reflexivity. }
    rewrite Hm. reflexivity.
  - intros fs IH fast v rest H Hs. destruct v; cbn [has_type] in H; try discriminate. cbn [cpp_read'].
    cbn [vsmall] in Hs. apply andb_true_iff in Hs. destruct Hs as [_ Hv].
    destruct (fast && ts true (TRec fs)) eqn:Ef.
    + apply andb_true_iff in Ef. destruct Ef as [_ Hts].
      destruct (ts_size (TRec fs) (VSeq vs) Hts H) as [s [a [El Hlen]]]. rewrite El, <- Hlen, run_cbytes, ec_rec.
      pose proof (cfields_rt false fs vs [] IH H Hv) as Hf. rewrite app_nil_r in Hf. rewrite Hf. reflexivity.
    + rewrite ec_rec, arun_cbind, (cfields_rt fast fs vs rest IH H Hv). reflexivity.
Qed.

Theorem cpp_read_roundtrip : forall t v rest, has_type t v = true -> vsmall v = true ->
  arun_c (cpp_read t) (enc t v ++ rest) = CVal v rest.
Proof. intros t v rest H Hs. exact (cpp_read_roundtrip' t true v rest H Hs). Qed.

(* ---------- END TO END for generated C++ ---------- *)
(* typed writer (fast paths included) -> CodedOutputStream (any buffer >= 10) -> bytes -> CodedInputStream (any buffer > 0)
   -> typed reader (fast paths included) returns the value written and leaves what followed it *)
Theorem cpp_typed_roundtrip : forall b1 b2 t v rest, (10 <= b1)%nat -> (0 < b2)%nat -> has_type t v = true -> vsmall v = true ->
  exists chunks s', wfinish b1 (cpp_wops t v) = Ok chunks /\
                    mrun_c b2 (cpp_read t) (cin_init (concat chunks ++ rest)) = CMVal v s' /\ pending s' = rest.
Proof.
  intros b1 b2 t v rest H1 H2 Ht Hs.
  destruct (cpp_typed_writer_bytes b1 t v H1 Ht Hs) as [chunks [Ew Ec]].
  assert (Hi : Inv b2 (cin_init (concat chunks ++ rest))) by (split; cbn; [discriminate|lia]).
  pose proof (cprog_refines val b2 (cpp_read t) (cin_init (concat chunks ++ rest)) H2 Hi) as H.
  change (pending (cin_init (concat chunks ++ rest))) with (concat chunks ++ rest) in H.
  rewrite Ec, (cpp_read_roundtrip t v rest Ht Hs) in H. destruct H as [s' [Hm [_ Hp]]].
  exists chunks, s'. split; [assumption|]. rewrite Ec. split; assumption.
Qed.

(* ---------- stream steps: the batch capacity of the writing side is not observable ---------- *)
Definition cpp_block (t : ty) (b : list val) : list N := venc (N.of_nat (length b)) ++ concat (map (enc t) b).

Lemma chunks_spec : forall A fuel b (l : list A), (1 <= b)%nat -> (length l <= fuel)%nat ->
  concat (chunks fuel b l) = l /\ Forall (fun c => c <> [] /\ (length c <= length l)%nat) (chunks fuel b l).
Proof.
  intros A fuel b. induction fuel as [|fuel IH]; intros l Hb Hf.
  - destruct l; [split; [reflexivity|constructor]|cbn in Hf; lia].
  - cbn [chunks]. destruct l as [|x l]; [split; [reflexivity|constructor]|].
    assert (Hsk : (length (skipn b (x :: l)) <= fuel)%nat) by (rewrite skipn_length; cbn [length] in *; lia).
    destruct (IH (skipn b (x :: l)) Hb Hsk) as [H1 H2]. split.
    + cbn [concat]. rewrite H1. apply firstn_skipn.
    + constructor.
      * split; [destruct b; [lia|discriminate]|rewrite firstn_length; lia].
      * eapply Forall_impl; [|exact H2]. intros c [Hc Hl]. split; [assumption|]. rewrite skipn_length in Hl. lia.
Qed.

Theorem cpp_read_stream_roundtrip : forall t blocks fuel rest,
  forallb (fun b => nonempty b && forallb (has_type t) b && forallb vsmall b && (N.of_nat (length b) <? 2 ^ 64)) blocks = true ->
  (length blocks < fuel)%nat ->
  arun_c (cpp_read_stream fuel t) (concat (map (cpp_block t) blocks) ++ [0] ++ rest) = CVal (concat blocks) rest.
Proof.
  intros t blocks. induction blocks as [|b blocks IH]; intros fuel rest H Hf; (destruct fuel as [|fuel]; [cbn in Hf; lia|]).
  - cbn [map concat app cpp_read_stream]. change (0 :: rest) with (venc 0 ++ rest). rewrite run_cvar64 by lia. reflexivity.
  - cbn [forallb] in H. apply andb_true_iff in H. destruct H as [Hb Hbs].
    apply andb_true_iff in Hb. destruct Hb as [Hb Hlen]. apply andb_true_iff in Hb. destruct Hb as [Hb Hsm].
    apply andb_true_iff in Hb. destruct Hb as [Hne Hty].
    cbn [map concat cpp_read_stream]. unfold cpp_block at 1. rewrite <- !app_assoc, run_cvar64 by lia.
    assert (En : (N.of_nat (length b) =? 0) = false) by (destruct b; [discriminate|cbn [length]; lia]).
    rewrite En, Nat2N.id, arun_cbind. unfold cpp_read.
    rewrite (citems_rt true t b _ (cpp_read_roundtrip' t) Hty Hsm), arun_cbind.
    cbn [length] in Hf. fold (cpp_read t). rewrite (IH fuel rest Hbs ltac:(lia)). reflexivity.
Qed.

Lemma cpp_stream_bytes : forall t batch items,
  forallb (has_type t) items = true -> forallb vsmall items = true -> N.of_nat (length items) < 2 ^ 64 ->
  cbytes (cpp_stream_ops t batch items) =
  concat (map (cpp_block t) (if Nat.leb batch 1 then map (fun x => [x]) items else chunks (length items) batch items)) ++ [0].
Proof.
  intros t batch items Hty Hsm Hlen. unfold cpp_stream_ops. rewrite cbytes_app. f_equal.
  destruct (Nat.leb batch 1) eqn:Eb.
  - clear Hlen. induction items as [|x items IH]; [reflexivity|].
    cbn [forallb] in Hty, Hsm. apply andb_true_iff in Hty. destruct Hty as [Hx Hxs]. apply andb_true_iff in Hsm. destruct Hsm as [Sx Sxs].
    cbn [map concat]. rewrite cbytes_app, cbytes_cons, (cpp_wops_bytes t x Hx Sx), (IH Hxs Sxs).
    unfold cpp_block. cbn [length map concat wbytes]. rewrite app_nil_r. reflexivity.
  - apply Nat.leb_gt in Eb.
    destruct (chunks_spec val (length items) batch items ltac:(lia) ltac:(lia)) as [Hc Hf].
    assert (Hall : Forall (fun c => forallb (has_type t) c = true /\ forallb vsmall c = true) (chunks (length items) batch items)).
    { rewrite <- Hc in Hty, Hsm. clear - Hty Hsm. induction (chunks (length items) batch items) as [|c cs IHc]; [constructor|].
      cbn [concat] in Hty, Hsm. rewrite forallb_app in Hty, Hsm. apply andb_true_iff in Hty. apply andb_true_iff in Hsm.
      destruct Hty as [T1 T2]. destruct Hsm as [S1 S2]. constructor; [split; assumption|apply IHc; assumption]. }
    assert (Hsz : Forall (fun c => N.of_nat (length c) < 2 ^ 64) (chunks (length items) batch items)).
    { eapply Forall_impl; [|exact Hf]. intros c [_ Hl]. lia. }
    clear Hc Hf. generalize dependent (chunks (length items) batch items). intros cs Hall Hsz.
    induction cs as [|c cs IHc]; [reflexivity|].
    inversion Hsz as [|? ? Hl Hsz']; subst. inversion Hall as [|? ? [Tc Sc] Hall']; subst.
    cbn [map concat]. rewrite cbytes_app, cbytes_cons, var64 by lia.
    rewrite (cdata_bytes t c (cpp_wops_bytes t) Tc Sc), (IHc Hall' Hsz'). unfold cpp_block. rewrite <- app_assoc. reflexivity.
Qed.

Lemma len_concat_nonempty : forall (cs : list (list val)), Forall (fun c => c <> []) cs -> (length cs <= length (concat cs))%nat.
Proof.
  intros cs H. induction H as [|c cs Hc _ IH]; [cbn; lia|]. cbn [length concat]. rewrite app_length.
  destruct c; [contradiction|cbn [length]; lia].
Qed.

Lemma forallb_concat : forall (f : val -> bool) (cs : list (list val)), forallb f (concat cs) = true ->
  Forall (fun c => forallb f c = true) cs.
Proof.
  intros f cs. induction cs as [|c cs IH]; intros H; [constructor|]. cbn [concat] in H. rewrite forallb_app in H.
  apply andb_true_iff in H. destruct H as [H1 H2]. constructor; [assumption|apply IH; assumption].
Qed.

(* what the generated C++ writer emits for a stream step copied with ANY batch capacity is read back, item by item, as the
   items in order *)
Theorem cpp_stream_any_batch : forall t batch items fuel rest,
  forallb (has_type t) items = true -> forallb vsmall items = true -> N.of_nat (length items) < 2 ^ 64 ->
  (length items < fuel)%nat ->
  arun_c (cpp_read_stream fuel t) (cbytes (cpp_stream_ops t batch items) ++ rest) = CVal items rest.
Proof.
  intros t batch items fuel rest Hty Hsm Hlen Hf.
  rewrite (cpp_stream_bytes t batch items Hty Hsm Hlen), <- app_assoc.
  set (blocks := if Nat.leb batch 1 then map (fun x => [x]) items else chunks (length items) batch items).
  assert (Hb : concat blocks = items /\ (length blocks <= length items)%nat /\
               forallb (fun b => nonempty b && forallb (has_type t) b && forallb vsmall b && (N.of_nat (length b) <? 2 ^ 64)) blocks = true).
  { unfold blocks. destruct (Nat.leb batch 1) eqn:Eb.
    - clear blocks Hlen Hf. induction items as [|x items IH]; [repeat split; reflexivity || (cbn; lia)|].
      cbn [forallb] in Hty, Hsm. apply andb_true_iff in Hty. destruct Hty as [Hx Hxs]. apply andb_true_iff in Hsm. destruct Hsm as [Sx Sxs].
      destruct (IH Hxs Sxs) as [H1 [H2 H3]]. cbn [map concat app length forallb nonempty]. rewrite H1, Hx, Sx, H3. cbn. repeat split; lia.
    - apply Nat.leb_gt in Eb.
      destruct (chunks_spec val (length items) batch items ltac:(lia) ltac:(lia)) as [Hc Hfa]. split; [assumption|]. split.
      + assert (Hle : (length (chunks (length items) batch items) <= length (concat (chunks (length items) batch items)))%nat).
        { apply len_concat_nonempty. eapply Forall_impl; [|exact Hfa]. intros c [Hne _]. exact Hne. }
        rewrite Hc in Hle. exact Hle.
      + rewrite <- Hc in Hty, Hsm. pose proof (forallb_concat _ _ Hty) as FT. pose proof (forallb_concat _ _ Hsm) as FS.
        assert (FL : Forall (fun c => c <> [] /\ N.of_nat (length c) < 2 ^ 64) (chunks (length items) batch items)).
        { eapply Forall_impl; [|exact Hfa]. intros c [Hne Hl]. split; [assumption|lia]. }
        clear Hc Hfa Hty Hsm. clear blocks. generalize dependent (chunks (length items) batch items). intros cs FT FS FL.
        induction cs as [|c cs IH]; [reflexivity|].
        inversion FT as [|? ? T1 FT']; subst. inversion FS as [|? ? S1 FS']; subst. inversion FL as [|? ? [N1 L1] FL']; subst.
        cbn [forallb]. rewrite T1, S1, (IH FT' FS' FL').
        assert (Ne : nonempty c = true) by (destruct c; [contradiction|reflexivity]). rewrite Ne.
        assert (Le : (N.of_nat (length c) <? 2 ^ 64) = true) by lia. rewrite Le. reflexivity. }
  destruct Hb as [H1 [H2 H3]]. rewrite (cpp_read_stream_roundtrip t blocks fuel rest H3 ltac:(lia)), H1. reflexivity.
Qed.

(* ---------- the header check of the C++ reader ---------- *)
Lemma run_cfixed : forall A (k : rval -> cprog A) w n r, n < 256 ^ N.of_nat w ->
  arun_c (COp (RFixed w) k) (le_enc w n ++ r) = arun_c (k (VNum n)) r.
Proof. intros A k w n r H. cbn [arun_c astep]. rewrite take_le_enc, le_dec_enc by assumption. reflexivity. Qed.

Theorem cpp_header_own : forall schema rest, N.of_nat (length schema) < 2 ^ 64 ->
  arun_c (cpp_read_header schema) (enc_header schema ++ rest) = CVal tt rest.
Proof.
  intros schema rest Hl. unfold cpp_read_header, enc_header. rewrite <- !app_assoc.
  change 5 with (N.of_nat (length magic)). rewrite run_cbytes. rewrite list_eq_N_refl. cbn [negb].
  rewrite run_cfixed by (vm_compute; reflexivity). rewrite N.eqb_refl. cbn [negb].
  rewrite run_cvar64 by assumption. rewrite run_cbytes, list_eq_N_refl. reflexivity.
Qed.

Theorem cpp_header_foreign : forall sa sb rest, sa <> sb -> N.of_nat (length sa) < 2 ^ 64 ->
  arun_c (cpp_read_header sb) (enc_header sa ++ rest) = CBad.
Proof.
  intros sa sb rest Hne Hl. unfold cpp_read_header, enc_header. rewrite <- !app_assoc.
  change 5 with (N.of_nat (length magic)). rewrite run_cbytes. rewrite list_eq_N_refl. cbn [negb].
  rewrite run_cfixed by (vm_compute; reflexivity). rewrite N.eqb_refl. cbn [negb].
  rewrite run_cvar64 by assumption. rewrite run_cbytes.
  destruct (list_eq_N sa sb) eqn:E; [apply list_eq_N_eq in E; contradiction|reflexivity].
Qed.

(* over the buffered stream, every buffer size: the foreign stream is refused before any value is read *)
Theorem cpp_header_foreign_buffered : forall b sa sb rest, (0 < b)%nat -> sa <> sb -> N.of_nat (length sa) < 2 ^ 64 ->
  mrun_c b (cpp_read_header sb) (cin_init (enc_header sa ++ rest)) = CMBad.
Proof.
  intros b sa sb rest Hb Hne Hl.
  assert (Hi : Inv b (cin_init (enc_header sa ++ rest))) by (split; cbn; [discriminate|lia]).
  pose proof (cprog_refines unit b (cpp_read_header sb) (cin_init (enc_header sa ++ rest)) Hb Hi) as H.
  change (pending (cin_init (enc_header sa ++ rest))) with (enc_header sa ++ rest) in H.
  rewrite (cpp_header_foreign sa sb rest Hne Hl) in H. exact H.
Qed.

(* ---------- a whole protocol, written and read by generated C++ ---------- *)
Inductive cresult := CRV (v : val) | CRI (xs : list val).

Fixpoint cpp_read_steps (fuel : nat) (steps : list step) : cprog (list cresult) :=
  match steps with
  | [] => CRet []
  | SValue t :: r => cbind (cpp_read t) (fun v => cbind (cpp_read_steps fuel r) (fun rs => CRet (CRV v :: rs)))
  | SStream t :: r => cbind (cpp_read_stream fuel t) (fun xs => cbind (cpp_read_steps fuel r) (fun rs => CRet (CRI xs :: rs)))
  end.

(* header, steps, then Close(): VerifyFinished *)
Definition cpp_read_protocol (fuel : nat) (schema : list N) (steps : list step) : cprog (list cresult) :=
  cbind (cpp_read_header schema) (fun _ =>
    cbind (cpp_read_steps fuel steps) (fun rs => COp RVerify (fun _ => CRet rs))).

Definition cstep_of (s : cstep) : step := match s with CSVal t _ => SValue t | CSStream t _ _ => SStream t end.
Definition cresult_of (s : cstep) : cresult := match s with CSVal _ v => CRV v | CSStream _ _ items => CRI items end.
Definition cstep_typed (s : cstep) : bool :=
  match s with
  | CSVal t v => has_type t v && vsmall v
  | CSStream t _ items => forallb (has_type t) items && forallb vsmall items && (N.of_nat (length items) <? 2 ^ 64)
  end.
Definition cstep_items (s : cstep) : nat := match s with CSVal _ _ => O | CSStream _ _ items => length items end.

Lemma cheader_ops_bytes : forall schema, N.of_nat (length schema) < 2 ^ 64 -> cbytes (cpp_header_ops schema) = enc_header schema.
Proof.
  intros schema H. unfold cbytes, cpp_header_ops, enc_header. cbn [map concat]. rewrite var64 by assumption.
  cbn [wbytes]. rewrite app_nil_r. reflexivity.
Qed.

Lemma csteps_roundtrip : forall steps fuel rest,
  forallb cstep_typed steps = true -> Forall (fun s => (cstep_items s < fuel)%nat) steps ->
  arun_c (cpp_read_steps fuel (map cstep_of steps)) (cbytes (concat (map cstep_ops steps)) ++ rest) = CVal (map cresult_of steps) rest.
Proof.
  induction steps as [|s steps IH]; intros fuel rest Ht Hf; [reflexivity|].
  cbn [forallb] in Ht. apply andb_true_iff in Ht. destruct Ht as [Hs Hss]. inversion Hf as [|? ? Hfs Hfss]; subst.
  cbn [map concat]. rewrite cbytes_app, <- app_assoc. destruct s as [t v|t b items]; cbn [cstep_of cpp_read_steps cstep_ops cresult_of cstep_typed cstep_items] in *.
  - apply andb_true_iff in Hs. destruct Hs as [Ht Hv].
    rewrite arun_cbind, (cpp_wops_bytes t v Ht Hv), (cpp_read_roundtrip t v _ Ht Hv), arun_cbind, (IH fuel rest Hss Hfss). reflexivity.
  - apply andb_true_iff in Hs. destruct Hs as [Hs Hl]. apply andb_true_iff in Hs. destruct Hs as [Ht Hv].
    rewrite arun_cbind, (cpp_stream_any_batch t b items fuel _ Ht Hv ltac:(lia) Hfs), arun_cbind, (IH fuel rest Hss Hfss). reflexivity.
Qed.

(* header, every step (streams copied with any batch capacity), and nothing after: the reader returns the values and
   VerifyFinished succeeds *)
Theorem cpp_protocol_roundtrip : forall schema steps fuel, N.of_nat (length schema) < 2 ^ 64 ->
  forallb cstep_typed steps = true -> Forall (fun s => (cstep_items s < fuel)%nat) steps ->
  arun_c (cpp_read_protocol fuel schema (map cstep_of steps)) (cbytes (cpp_protocol_ops schema steps))
  = CVal (map cresult_of steps) [].
Proof.
  intros schema steps fuel Hl Ht Hf. unfold cpp_read_protocol, cpp_protocol_ops.
  rewrite cbytes_app, (cheader_ops_bytes schema Hl), arun_cbind, cpp_header_own by assumption.
  rewrite arun_cbind. pose proof (csteps_roundtrip steps fuel [] Ht Hf) as H. rewrite app_nil_r in H. rewrite H. reflexivity.
Qed.
