(* C12 — where Go code ranges over a map, the iteration order is an adversary: it is modelled as an
   arbitrary permutation of the entries.  Each site follows one of a few disciplines that make its
   observable result independent of that permutation (or does not: FirstError). *)
From Coq Require Import List NArith Bool String.
Import ListNotations.

Inductive discipline :=
| SortedSink      (* results go to the error/warning sink, which sorts by (file, line, column, message) *)
| ExplicitSort    (* the keys are collected and sorted before use *)
| SetBuild        (* only inserts into a set / map: membership is what matters *)
| AnyAll          (* a boolean any/all over the entries *)
| FirstError.     (* returns at the first entry that fails: depends on the order when two entries fail *)

(* the sites known to the model: (file, function, ranged expression) *)
Definition site_discipline (file func expr : string) : option discipline :=
  match file, func, expr with
  | "pkg/dsl/evolution.go", "validateProtocolChanges", "changes" => Some SortedSink
  | "pkg/dsl/evolution.go", "resolveAllChanges", "allProtocolChanges" => Some SetBuild
  | "pkg/dsl/types.go", "Clone", "st" => Some SetBuild
  | "pkg/dsl/validation_enums.go", "validateEnums", "symbolsByVal" => Some SortedSink
  | "pkg/dsl/validation_type_resolution.go", "validateGenericParametersUsed", "usedTypeParameters" => Some SortedSink
  | "pkg/dsl/validation_unions.go", "validateUnionCases", "tags" => Some ExplicitSort
  | "internal/cpp/binary/binary.go", "collectUnionArities", "t.Versions" => Some SetBuild
  | "internal/cpp/binary/binary.go", "collectUnionArities", "arities" => Some ExplicitSort
  | "internal/cpp/binary/binary.go", "writeProtocolMethods", "p.Versions" => Some SetBuild
  | "internal/cpp/binary/binary.go", "writeChangeSwitchCase", "vs" => Some AnyAll
  | "internal/cpp/binary/binary.go", "writeChangeSwitchCase", "changes" => Some ExplicitSort
  | "internal/cpp/hdf5/innertypes.go", "collectUnionArities", "arities" => Some ExplicitSort
  | "internal/cmd/configargs.go", "updatePackageInfoFromArgs", "configArgs" => Some ExplicitSort
  | _, _, _ => None
  end%string.

Definition order_independent (d : discipline) : bool :=
  match d with FirstError => false | _ => true end.

(* diagnostics: (file, line (absent = 0), column (absent = 0), message) with the sink's comparison *)
Definition diag := (N * N * N * N)%type.
Definition diag_le (a b : diag) : bool :=
  let '(f1, l1, c1, m1) := a in let '(f2, l2, c2, m2) := b in
  if negb (N.eqb f1 f2) then N.ltb f1 f2
  else if negb (N.eqb l1 l2) then N.ltb l1 l2
  else if negb (N.eqb c1 c2) then N.ltb c1 c2
  else N.leb m1 m2.

(* the comparison without the message tie-break *)
Definition diag_le_nomsg (a b : diag) : bool :=
  let '(f1, l1, c1, m1) := a in let '(f2, l2, c2, m2) := b in
  if negb (N.eqb f1 f2) then N.ltb f1 f2
  else if negb (N.eqb l1 l2) then N.ltb l1 l2
  else N.leb c1 c2.

Fixpoint sortedb {A} (le : A -> A -> bool) (l : list A) : bool :=
  match l with
  | [] => true
  | x :: r => forallb (le x) r && sortedb le r
  end.

(* ---------- WriteFileIfNeeded and regeneration ---------- *)
Definition wfile := (N * N * N)%type.      (* path, content, mtime *)

Fixpoint write_if_needed (now p c : N) (fs : list wfile) : list wfile :=
  match fs with
  | [] => [(p, c, now)]
  | (p', c', t) :: r =>
      if N.eqb p' p then (if N.eqb c' c then (p', c', t) :: r else (p', c, now) :: r)
      else (p', c', t) :: write_if_needed now p c r
  end.

Fixpoint content (p : N) (fs : list wfile) : option N :=
  match fs with
  | [] => None
  | (p', c', _) :: r => if N.eqb p' p then Some c' else content p r
  end.

(* one `yardl generate`: the outputs are a function of the package; each is written if needed at time [now] *)
Definition regenerate (now : N) (outs : list (N * N)) (fs : list wfile) : list wfile :=
  fold_left (fun fs pc => write_if_needed now (fst pc) (snd pc) fs) outs fs.
