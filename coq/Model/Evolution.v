(* Schema evolution verdicts (tooling/pkg/dsl/evolution.go, evolution_changes.go) on resolved types.

   A type is expanded to [ety]: aliases and generic instantiations are resolved away, records and enums keep their
   (qualified) names - an instantiated generic carries its arguments in the name - and their definition inline.
   [cmp] is compareTypes and returns the kind of change; [def_verdict] is what validateTypeDefinitionChanges issues for a
   pair of definitions with the same name; [env_verdict] puts definitions and protocols together as validateChanges does.
   Renames expressed through aliases are a relation between old and new names supplied with the comparison. *)
From Coq Require Import List NArith ZArith Bool.
From YV Require Import Base.Wire Model.Binary Gen.Tables Model.Json Model.Schema.
Import ListNotations.
Open Scope N_scope.

Inductive ety :=
| EPrim (p : prim)
| ERec (name : str) (fields : list (str * ety))
| EEnum (name : str) (is_flags : bool) (base : prim) (values : list (str * Z))
| EOpt (t : ety)                                   (* [null, T] *)
| EUnion (has_null : bool) (cases : list ety)
| EVec (len : option N) (t : ety)
| EArr (dims : option (list (option N))) (t : ety)
| EMap (k v : ety)
| EParam (name : str)                              (* an unbound generic type parameter *)
| EAlias (name : str) (t : ety).                   (* a reference to a (non-generic) alias, with what it stands for *)

Inductive verdict := VOk | VWarn | VErr.
Definition vmax (a b : verdict) : verdict :=
  match a, b with
  | VErr, _ | _, VErr => VErr
  | VWarn, _ | _, VWarn => VWarn
  | _, _ => VOk
  end.
Definition vmaxl (l : list verdict) : verdict := fold_right vmax VOk l.
Definition verdict_tag (v : verdict) : N := match v with VOk => 0 | VWarn => 1 | VErr => 2 end.

(* kinds of type change: none; only a referenced definition changed; silent other change (a wrapped definition change, a
   pure reordering of union cases); partially compatible (warning); incompatible (error) *)
Inductive kind := K0 | KD | KQ | KW | KE.
Definition is_match (k : kind) : bool := match k with K0 | KD => true | _ => false end.
Definition is_k0 (k : kind) : bool := match k with K0 => true | _ => false end.
Definition wrap (k : kind) : kind := match k with K0 => K0 | KD | KQ => KQ | KW => KW | KE => KE end.
Definition kind_verdict (k : kind) : verdict := match k with KE => VErr | KW => VWarn | _ => VOk end.

Definition prim_tag (p : prim) : N :=
  match p with
  | PBool => 0 | PInt8 => 1 | PUint8 => 2 | PInt16 => 3 | PUint16 => 4 | PInt32 => 5 | PUint32 => 6 | PInt64 => 7
  | PUint64 => 8 | PSize => 9 | PFloat32 => 10 | PFloat64 => 11 | PCFloat32 => 12 | PCFloat64 => 13 | PString => 14
  | PDate => 15 | PTime => 16 | PDateTime => 17
  end.
Definition prim_eqb (a b : prim) : bool := prim_tag a =? prim_tag b.
(* GetPrimitiveKind (Gen.Tables.prim_kind, regenerated): 0 integer, 1 floating point, 2 complex, 3 other *)
Definition is_number (p : prim) : bool := (prim_kind p =? 0) || (prim_kind p =? 1).
Definition is_complex (p : prim) : bool := prim_kind p =? 2.
Definition is_string (p : prim) : bool := prim_eqb p PString.

(* detectPrimitiveTypeChange *)
Definition cmp_prim (n o : prim) : kind :=
  if prim_eqb n o then K0
  else if is_string o && is_number n then KW
  else if is_number o && (is_string n || is_number n) then KW
  else if is_complex o && is_complex n then KW
  else KE.

Definition renames := list (str * str).              (* (old name, new name) *)
Definition same_name (r : renames) (n o : str) : bool :=
  str_eqb n o || existsb (fun p => str_eqb (fst p) o && str_eqb (snd p) n) r.

Definition opt_N_eqb (a b : option N) : bool :=
  match a, b with Some x, Some y => x =? y | None, None => true | _, _ => false end.
Fixpoint dims_eqb (a b : list (option N)) : bool :=
  match a, b with
  | [], [] => true
  | x :: ar, y :: br => opt_N_eqb x y && dims_eqb ar br
  | _, _ => false
  end.

Fixpoint nullable_e (t : ety) : bool :=
  match t with EOpt _ => true | EUnion hn _ => hn | EAlias _ t => nullable_e t | _ => false end.
Definition has_dims (t : ety) : bool := match t with EVec _ _ | EArr _ _ | EMap _ _ => true | _ => false end.

Fixpoint efield (fs : list (str * ety)) (n : str) : option ety :=
  match fs with [] => None | (k, t) :: r => if str_eqb k n then Some t else efield r n end.
Fixpoint findex (fs : list (str * ety)) (n : str) (i : nat) : option nat :=
  match fs with [] => None | (k, _) :: r => if str_eqb k n then Some i else findex r n (S i) end.
Fixpoint zassoc (l : list (str * Z)) (n : str) : option Z :=
  match l with [] => None | (k, v) :: r => if str_eqb k n then Some v else zassoc r n end.

(* the greedy matching of detectUnionChanges: for each new case in turn the first old case not yet used that matches.
   [used] is parallel to the old cases.  Returns for every new case the index it matched *)
Fixpoint first_match (f : ety -> bool) (olds : list ety) (used : list bool) (j : nat) : option nat :=
  match olds, used with
  | o :: orest, u :: urest => if negb u && f o then Some j else first_match f orest urest (S j)
  | _, _ => None
  end.
Fixpoint set_nth (l : list bool) (j : nat) : list bool :=
  match l, j with
  | [], _ => []
  | _ :: r, O => true :: r
  | x :: r, S k => x :: set_nth r k
  end.

(* detectUnionChanges on two unions; [c] compares two case types *)
Section Unions.
Variable c : ety -> ety -> kind.

(* state: (reordered, some matched definition changed, some new case unmatched, some case matched, old cases used) *)
Fixpoint union_go (ocs news : list ety) (i : nat) (used : list bool) (reordered defchg unmatched_new anym : bool)
  : bool * bool * bool * bool * list bool :=
  match news with
  | [] => (reordered, defchg, unmatched_new, anym, used)
  | x :: r =>
      match first_match (fun y => is_match (c x y)) ocs used 0 with
      | Some j =>
          let k := c x (nth j ocs (EParam [])) in
          union_go ocs r (S i) (set_nth used j) (reordered || negb (Nat.eqb i j)) (defchg || negb (is_k0 k)) unmatched_new true
      | None => union_go ocs r (S i) used reordered defchg true anym
      end
  end.

Definition union_union (hn ho : bool) (ncs ocs : list ety) : kind :=
  let '(reordered, defchg, unmatched_new, anym, used) :=
    union_go ocs ncs 0%nat (map (fun _ => false) ocs) false false false false in
  let null_matched := hn && ho in
  let unmatched_old := existsb negb used || (ho && negb hn) in
  let unmatched_new' := unmatched_new || (hn && negb ho) in
  (* positions shift when only one side has the null case *)
  let reordered' := reordered || (negb (Bool.eqb hn ho) && anym) in
  if negb (anym || null_matched) then KE
  else if unmatched_old || unmatched_new' then KW
  else if reordered' || defchg then KQ
  else K0.
End Unions.

Section Cmp.
Variable rn : renames.

Fixpoint cmp (fuel : nat) (n o : ety) {struct fuel} : kind :=
  match fuel with
  | O => KE
  | S f =>
      let c := cmp f in
      let matches a b := is_match (c a b) in
      (* the item types of a vector / array / map / stream are compared as case lists (ToScalar): a single type against an
         optional or a union is incompatible there *)
      let item a b := c a b in
      match n, o with
      (* aliases are transparent for the comparison of types *)
      | EAlias _ tn, EAlias _ to => c tn to
      | EAlias _ tn, _ => c tn o
      | _, EAlias _ to => c n to
      (* both simple *)
      | EPrim a, EPrim b => cmp_prim a b
      | EParam a, EParam b => if str_eqb a b then K0 else KE
      | ERec nn nf, ERec on of_ =>
          if negb (same_name rn nn on) then KE else
          let changed := existsb (fun fo => match efield nf (fst fo) with
                                           | Some tn => negb (is_k0 (c tn (snd fo)))
                                           | None => true
                                           end) of_ in
          let added := existsb (fun fn => match efield of_ (fst fn) with Some _ => false | None => true end) nf in
          let reordered := existsb (fun fo => match findex of_ (fst fo) 0, findex nf (fst fo) 0 with
                                             | Some i, Some j => negb (Nat.eqb i j)
                                             | _, _ => false
                                             end) of_ in
          if changed || added || reordered then KD else K0
      | EEnum nn nfl nb nv, EEnum on ofl ob ov =>
          if negb (same_name rn nn on) then KE
          else if negb (Bool.eqb nfl ofl) then KE
          else if negb (is_k0 (cmp_prim nb ob))
                  || existsb (fun v => match zassoc ov (fst v) with Some _ => false | None => true end) nv
                  || existsb (fun v => match zassoc nv (fst v) with Some z => negb (z =? snd v)%Z | None => true end) ov
               then KD else K0
      (* new simple, old optional / union *)
      | (EPrim _ | ERec _ _ | EEnum _ _ _ _ | EParam _), EOpt ot => if matches n ot then KW else KE
      | (EPrim _ | ERec _ _ | EEnum _ _ _ _ | EParam _), EUnion _ ocs => if existsb (matches n) ocs then KW else KE
      (* new optional / union, old simple *)
      | EOpt nt, (EPrim _ | ERec _ _ | EEnum _ _ _ _ | EParam _) => if matches nt o then KW else KE
      | EUnion _ ncs, (EPrim _ | ERec _ _ | EEnum _ _ _ _ | EParam _) => if existsb (fun x => matches x o) ncs then KW else KE
      (* both scalar generalized *)
      | EOpt nt, EOpt ot => wrap (c nt ot)
      | EOpt nt, EUnion ho ocs => if ho && existsb (matches nt) ocs then KW else KE
      | EUnion hn ncs, EOpt ot => if hn && existsb (fun x => matches x ot) ncs then KW else KE
      | EUnion hn ncs, EUnion ho ocs => union_union c hn ho ncs ocs
      (* both with dimensionality *)
      | EVec nl nt, EVec ol ot =>
          let inner := item nt ot in
          if match inner with KE => true | _ => false end then KE
          else if negb (opt_N_eqb nl ol) then KE else wrap inner
      | EArr nd nt, EArr od ot =>
          let inner := item nt ot in
          if match inner with KE => true | _ => false end then KE
          else match nd, od with
               | None, None => if is_k0 inner then K0 else KE
               | Some a, Some b => if dims_eqb a b then (if is_k0 inner then K0 else KE) else KE
               | _, _ => KE
               end
      | EMap nk nv, EMap ok ov =>
          let inner := item nv ov in
          if match inner with KE => true | _ => false end then KE
          else if negb (is_k0 (c nk ok)) then KE
          else if is_k0 inner then K0 else KE
      | _, _ => KE
      end
  end.

Definition is_cases (t : ety) : bool := match t with EOpt _ | EUnion _ _ => true | _ => false end.
Definition cmp_item (fuel : nat) (n o : ety) : kind := cmp fuel n o.

(* validateTypeDefinitionChanges for two definitions paired by name *)
Fixpoint unalias (t : ety) : ety := match t with EAlias _ x => unalias x | _ => t end.

Definition def_verdict (fuel : nat) (n o : ety) : verdict :=
  match unalias n, unalias o with
  | ERec _ nf, ERec _ of_ =>
      vmax
        (vmaxl (map (fun fn => match efield of_ (fst fn) with
                               | Some _ => VOk
                               | None => if nullable_e (snd fn) then VOk else VWarn       (* added field *)
                               end) nf))
        (vmaxl (map (fun fo => match efield nf (fst fo) with
                               | None => if nullable_e (snd fo) then VOk else VWarn        (* removed field *)
                               | Some tn => kind_verdict (cmp fuel tn (snd fo))
                               end) of_))
  | EEnum _ nfl nb nv, EEnum _ ofl ob ov =>
      if negb (Bool.eqb nfl ofl) then VErr
      else if negb (is_k0 (cmp_prim nb ob)) then VErr
      else if existsb (fun v => match zassoc nv (fst v) with Some z => negb (z =? snd v)%Z | None => true end) ov then VErr
      else VOk
  | ERec _ _, EEnum _ _ _ _ | EEnum _ _ _ _, ERec _ _ => VErr              (* a record became an enum or vice versa *)
  | _, _ => kind_verdict (cmp fuel n o)                                    (* aliases: the change of the aliased type *)
  end.

(* the verdicts validateTypeDefinitionChanges issues for the definitions met while comparing two step types: only old
   definitions referenced from a changed step are reported (oldDefsReferenced), paired with the new definition of the same name *)
Fixpoint cmpv (fuel : nat) (n o : ety) {struct fuel} : verdict :=
  match fuel with
  | O => VOk
  | S f =>
      let first_matching (x : ety) (olds : list ety) : verdict :=
        match find (fun y => is_match (cmp fuel x y)) olds with Some y => cmpv f x y | None => VOk end in
      match n, o with
      | EAlias _ tn, EAlias _ to => cmpv f tn to
      | EAlias _ tn, _ => cmpv f tn o
      | _, EAlias _ to => cmpv f n to
      | ERec nn nf, ERec on of_ =>
          if negb (same_name rn nn on) then VOk else
          vmax (def_verdict fuel n o)
               (vmaxl (map (fun fo => match efield nf (fst fo) with Some tn => cmpv f tn (snd fo) | None => VOk end) of_))
      | EEnum nn _ _ _, EEnum on _ _ _ => if same_name rn nn on then def_verdict fuel n o else VOk
      | EOpt nt, EOpt ot => cmpv f nt ot
      | EVec _ nt, EVec _ ot => cmpv f nt ot
      | EArr _ nt, EArr _ ot => cmpv f nt ot
      | EMap nk nv, EMap ok ov => vmax (cmpv f nk ok) (cmpv f nv ov)
      | EUnion _ ncs, EUnion _ ocs => vmaxl (map (fun x => first_matching x ocs) ncs)
      | EUnion _ ncs, EOpt ot => vmaxl (map (fun x => first_matching x [ot]) ncs)
      | EOpt nt, EUnion _ ocs => first_matching nt ocs
      | EUnion _ ncs, _ => vmaxl (map (fun x => first_matching x [o]) ncs)
      | EOpt nt, _ => first_matching nt [o]
      | _, EUnion _ ocs => first_matching n ocs
      | _, EOpt ot => first_matching n [ot]
      | _, _ => VOk
      end
  end.

(* the aliases an (old) type refers to, with what they stood for *)
Fixpoint aliases_in (fuel : nat) (t : ety) : list (str * ety) :=
  match fuel with
  | O => []
  | S f =>
      match t with
      | EAlias n x => (n, x) :: aliases_in f x
      | ERec _ fs => flat_map (fun x => aliases_in f (snd x)) fs
      | EOpt x | EVec _ x | EArr _ x => aliases_in f x
      | EUnion _ cs => flat_map (aliases_in f) cs
      | EMap k v => aliases_in f k ++ aliases_in f v
      | _ => []
      end
  end.

(* protocols: (name, is a stream, type); a stream step is the item type with the stream dimensionality on both sides *)
Definition estep := (str * bool * ety)%type.

Definition can_be_empty (s : estep) : bool :=
  let '(_, is_stream, t) := s in
  is_stream || nullable_e t || match unalias t with EVec _ _ | EMap _ _ => true | _ => false end.

Fixpoint sfind (ss : list estep) (n : str) (i : nat) : option (nat * estep) :=
  match ss with
  | [] => None
  | s :: r => if str_eqb (fst (fst s)) n then Some (i, s) else sfind r n (S i)
  end.

Definition step_kind (fuel : nat) (sn so : estep) : kind :=
  if Bool.eqb (snd (fst sn)) (snd (fst so))
  then (if snd (fst sn) then wrap (cmp_item fuel (snd sn) (snd so)) else cmp fuel (snd sn) (snd so))
  else KE.

Variable new_defs : list (str * ety).
Fixpoint dlookup (l : list (str * ety)) (n : str) : option ety :=
  match l with [] => None | (k, v) :: r => if str_eqb k n then Some v else dlookup r n end.

(* every alias the old step type refers to is compared with the new definition of the same name *)
Definition alias_verdicts (fuel : nat) (old : ety) : verdict :=
  vmaxl (map (fun a => match dlookup new_defs (fst a) with
                       | Some nd => kind_verdict (cmp fuel nd (snd a))
                       | None => VOk
                       end) (aliases_in fuel old)).

Fixpoint proto_go (fuel : nat) (os news : list estep) (expected : nat) : verdict :=
  match news with
  | [] => VOk
  | sn :: r =>
      match sfind os (fst (fst sn)) 0 with
      | None => vmax (if can_be_empty sn then VOk else VErr) (proto_go fuel os r expected)
      | Some (j, so) =>
          let k := step_kind fuel sn so in
          vmax (vmax (vmax (if negb (Nat.eqb j expected) then VErr else VOk) (kind_verdict k))
                     (if is_k0 k then VOk else vmax (cmpv fuel (snd sn) (snd so)) (alias_verdicts fuel (snd so))))
               (proto_go fuel os r (S expected))
      end
  end.

Definition steps_removed (ns os : list estep) : bool :=
  existsb (fun so => match sfind ns (fst (fst so)) 0 with Some _ => false | None => true end) os.

Definition proto_verdict (fuel : nat) (ns os : list estep) : verdict :=
  vmax (if steps_removed ns os then VErr else VOk) (proto_go fuel os ns 0%nat).
End Cmp.

(* an environment: named definitions (records, enums, aliases - expanded) and protocols *)
Record eenv := { e_defs : list (str * ety); e_protos : list (str * list estep) }.

Fixpoint dassoc {A} (l : list (str * A)) (n : str) : option A :=
  match l with [] => None | (k, v) :: r => if str_eqb k n then Some v else dassoc r n end.

Definition env_verdict (fuel : nat) (rn : renames) (new old : eenv) : verdict :=
  vmaxl (map (fun op => match dassoc (e_protos new) (fst op) with
                        | Some ns => proto_verdict rn (e_defs new) fuel ns (snd op)
                        | None => VWarn                                       (* removed protocol *)
                        end) (e_protos old)).
