(* L12 — package import collection (tooling/pkg/packaging/packageinfo.go:collectPackages) over an
   abstract directory tree: [F d = Some (ns, imports)] is what `_package.yml` in directory d says;
   None = the directory or its _package.yml is missing.  Executable definitions only. *)
From Coq Require Import List NArith Bool.
Import ListNotations.
Open Scope N_scope.

Definition dir := N.
Definition nsid := N.
Definition tree := dir -> option (nsid * list dir).

Inductive cerr :=
| ECycle (d : dir)               (* "import cycle detected" reported for directory d *)
| EConflict (d other : dir)      (* "namespace conflicts with" *)
| EDepth (d : dir)               (* "reached maximum number of recursive imports" *)
| EMissing (d : dir).            (* directory / _package.yml not found *)

Record cstate := mkC {
  coll : list (nsid * dir);      (* alreadyCollected *)
  fin : list dir                 (* packages whose import loop has completed, in completion order *)
}.

Definition cinit : cstate := mkC [] [].

Fixpoint lookup (n : nsid) (l : list (nsid * dir)) : option dir :=
  match l with
  | [] => None
  | (m, d) :: r => if m =? n then Some d else lookup n r
  end.

Definition memN (n : N) (l : list N) : bool := existsb (N.eqb n) l.

(* the loop over the import list; [rec] collects one import *)
Definition collect_list (rec : dir -> cstate -> cstate * option cerr)
  : list dir -> cstate -> cstate * option cerr :=
  fix go (ds : list dir) (s : cstate) : cstate * option cerr :=
    match ds with
    | [] => (s, None)
    | x :: r => match rec x s with
                | (s', None) => go r s'
                | (s', Some e) => (s', Some e)
                end
    end.

(* [fuel] is depthRemaining; [chain] the namespaces with importChain[ns] = true *)
Fixpoint collect (fuel : nat) (F : tree) (chain : list nsid) (d : dir) (s : cstate) : cstate * option cerr :=
  match F d with
  | None => (s, Some (EMissing d))
  | Some (n, imps) =>
      if memN n chain then (s, Some (ECycle d))
      else match lookup n (coll s) with
           | Some d' => if d' =? d then (s, None) else (s, Some (EConflict d d'))
           | None =>
               let s1 := mkC ((n, d) :: coll s) (fin s) in
               match fuel with
               | O => (s1, Some (EDepth d))
               | S f =>
                   match collect_list (collect f F (n :: chain)) imps s1 with
                   | (s2, None) => (mkC (coll s2) (fin s2 ++ [d]), None)
                   | (s2, Some x) => (s2, Some x)
                   end
               end
           end
  end.

(* the fixed nesting limit of the tool; regenerated from the source into Gen/Constants.v and
   checked to be this value by the harness *)
Definition max_depth : nat := 10.

Definition load (F : tree) (root : dir) : cstate * option cerr := collect max_depth F [] root cinit.

(* association-list trees, for evaluation *)
Fixpoint tree_of (l : list (dir * (nsid * list dir))) : tree :=
  fun d => match l with
           | [] => None
           | (d', v) :: r => if d' =? d then Some v else tree_of r d
           end.

(* ---------- evaluation glue ---------- *)
(* observed verdict: 0 ok / 1 cycle / 2 conflict / 3 depth / 4 missing, the directory named by the error
   (ignored for ok), and on success the order in which namespaces were emitted (dependencies first) *)
Definition ccase := (list (dir * (nsid * list dir)) * dir * N * dir * list nsid)%type.

Fixpoint eqbl (a b : list N) : bool :=
  match a, b with
  | [], [] => true
  | x :: a', y :: b' => (x =? y) && eqbl a' b'
  | _, _ => false
  end.

Definition ns_of (F : tree) (d : dir) : nsid := match F d with Some (n, _) => n | None => 0 end.

Definition ccase_ok (c : ccase) : bool :=
  let '(t, root, kind, ed, order) := c in
  let F := tree_of t in
  match load F root with
  | (s, None) => (kind =? 0) && eqbl (map (ns_of F) (fin s)) order
  | (_, Some (ECycle d)) => (kind =? 1) && (d =? ed)
  | (_, Some (EConflict d _)) => (kind =? 2) && (d =? ed)
  | (_, Some (EDepth d)) => (kind =? 3) && (d =? ed)
  | (_, Some (EMissing d)) => (kind =? 4)
  end.

Fixpoint cmismatches (i : N) (l : list ccase) : list N :=
  match l with
  | [] => []
  | c :: r => if ccase_ok c then cmismatches (i + 1) r else i :: cmismatches (i + 1) r
  end.
