(* L5 — the C++ buffered streams of coded_stream.h as explicit state machines,
   parameterised by the buffer size.  Executable definitions only.

   Reading of the code (tooling/internal/cpp/include/detail/binary/coded_stream.h):
   - CodedInputStream keeps [buffer_ptr_, buffer_end_ptr_) = the bytes fetched from the
     istream and not yet consumed.  The model keeps exactly those bytes ([avail]); a read at
     or beyond buffer_end_ptr_ is the explicit result [Fault StaleRead] (the real code would
     return whatever the vector holds there, or run off its end).
   - std::istream::read(buf, n) delivers min(n, available) bytes and sets eofbit iff fewer
     than n were available. *)
From Coq Require Import List NArith ZArith Bool.
From YV Require Import Base.Wire.
Import ListNotations.
Open Scope N_scope.

Inductive fault := StaleRead | NotFinished | Overflow | UBShift | OutOfFuel.

Inductive res (A : Type) :=
| Ok (a : A)
| Eof            (* EndOfStreamException *)
| Fault (f : fault).
Arguments Ok {A} a.
Arguments Eof {A}.
Arguments Fault {A} f.

(* ------------------------------------------------------------------------------------ *)
(* Input                                                                                  *)

Record cin := mkCin {
  avail : list N;     (* [buffer_ptr_, buffer_end_ptr_) *)
  under : list N;     (* what the istream has not delivered yet *)
  at_eof : bool       (* at_eof_ *)
}.

Definition cin_init (input : list N) : cin := mkCin [] input false.
Definition pending (s : cin) : list N := avail s ++ under s.

(* read operations and their results *)
Inductive rop :=
| RByte
| RVar (w : N)          (* ReadVarInt32/64 (unsigned): w = 32 or 64 *)
| RFixed (k : nat)      (* ReadFixedInteger of k bytes *)
| RBytes (n : N)        (* ReadBytes *)
| RVerify.              (* VerifyFinished *)

Inductive rval := VNum (n : N) | VBytes (l : list N) | VUnit.

Definition max_varint (w : N) : nat := if w <=? 32 then 5%nat else 10%nat.

Section WithBuf.
Variable bufsize : nat.

(* FillBuffer(allow_empty).  State is updated before the zero-byte check throws. *)
Definition fill (allow_empty : bool) (s : cin) : res cin * cin :=
  if at_eof s then (Eof, s)
  else
    let k := Nat.min bufsize (length (under s)) in
    let s' := mkCin (firstn k (under s)) (skipn k (under s))
                    (Nat.ltb (length (under s)) bufsize) in
    if (Nat.eqb k 0) && negb allow_empty then (Eof, s') else (Ok s', s').

(* the idiom  `if (buffer_ptr_ == buffer_end_ptr_) FillBuffer();  b = *buffer_ptr_++;` *)
Definition fetch (s : cin) : res N * cin :=
  match avail s with
  | b :: r => (Ok b, mkCin r (under s) (at_eof s))
  | [] =>
      match fill false s with
      | (Ok s1, _) =>
          match avail s1 with
          | b :: r => (Ok b, mkCin r (under s1) (at_eof s1))
          | [] => (Fault StaleRead, s1)
          end
      | (Eof, s1) => (Eof, s1)
      | (Fault f, s1) => (Fault f, s1)
      end
  end.

(* Read*FastFromArray on the buffered bytes only: running past buffer_end_ptr_ is StaleRead *)
Fixpoint var_fast (l : list N) (acc : list N) : res (list N * list N) :=
  match l with
  | [] => Fault StaleRead
  | b :: r => if b <? 128 then Ok (rev (b :: acc), r) else var_fast r (b :: acc)
  end.

(* the byte-at-a-time loop of ReadVarIntegerSlow *)
Fixpoint var_slow (fuel : nat) (s : cin) (acc : list N) : res (list N) * cin :=
  match fuel with
  | O => (Fault OutOfFuel, s)
  | S f =>
      match fetch s with
      | (Ok b, s1) => if b <? 128 then (Ok (rev (b :: acc)), s1) else var_slow f s1 (b :: acc)
      | (Eof, s1) => (Eof, s1)
      | (Fault x, s1) => (Fault x, s1)
      end
  end.

(* value of the raw bytes of one varint in a w-bit accumulator:
   value |= static_cast<T>(byte & 0x7f) << shift  — shifting by >= w bits is undefined. *)
Definition var_value (w : N) (bytes : list N) : res N :=
  if Nat.ltb (max_varint w) (length bytes) then Fault UBShift
  else match vdec bytes with
       | Some (v, _) => Ok (v mod 2 ^ w)
       | None => Fault StaleRead
       end.

Definition fuel_of (s : cin) : nat := S (length (avail s) + length (under s)).

Definition read_var (w : N) (s : cin) : res N * cin :=
  let fast s0 :=
    match var_fast (avail s0) [] with
    | Ok (bytes, r) =>
        match var_value w bytes with
        | Ok v => (Ok v, mkCin r (under s0) (at_eof s0))
        | Eof => (Eof, s0) | Fault x => (Fault x, s0)
        end
    | Eof => (Eof, s0) | Fault x => (Fault x, s0)
    end in
  let slow s0 :=
    match var_slow (fuel_of s0) s0 [] with
    | (Ok bytes, s1) =>
        match var_value w bytes with
        | Ok v => (Ok v, s1) | Eof => (Eof, s1) | Fault x => (Fault x, s1)
        end
    | (Eof, s1) => (Eof, s1) | (Fault x, s1) => (Fault x, s1)
    end in
  if Nat.ltb (length (avail s)) (max_varint w) then
    (* ReadVarIntegerSlow *)
    match avail s with
    | [] =>
        match fill false s with
        | (Ok s1, _) =>
            if Nat.leb (max_varint 64) (length (avail s1)) then fast s1 else slow s1
        | (Eof, s1) => (Eof, s1)
        | (Fault x, s1) => (Fault x, s1)
        end
    | _ :: _ => slow s
    end
  else fast s.

(* ReadBytes: copy what is buffered, refill, repeat *)
Fixpoint read_bytes (fuel : nat) (n : N) (s : cin) (acc : list N) : res (list N) * cin :=
  if n =? 0 then (Ok acc, s)
  else match fuel with
  | O => (Fault OutOfFuel, s)
  | S f =>
      match avail s with
      | [] =>
          match fill false s with
          | (Ok s1, _) =>
              match avail s1 with
              | [] => (Fault StaleRead, s1)
              | _ :: _ =>
                  let c := Nat.min (N.to_nat (N.min n (N.of_nat (length (avail s1))))) (length (avail s1)) in
                  read_bytes f (n - N.of_nat c)
                    (mkCin (skipn c (avail s1)) (under s1) (at_eof s1)) (acc ++ firstn c (avail s1))
              end
          | (Eof, s1) => (Eof, s1)
          | (Fault x, s1) => (Fault x, s1)
          end
      | _ :: _ =>
          let c := Nat.min (N.to_nat (N.min n (N.of_nat (length (avail s))))) (length (avail s)) in
          read_bytes f (n - N.of_nat c)
            (mkCin (skipn c (avail s)) (under s) (at_eof s)) (acc ++ firstn c (avail s))
      end
  end.

Definition read_fixed (k : nat) (s : cin) : res N * cin :=
  let fast s0 := (Ok (le_dec (firstn k (avail s0))),
                  mkCin (skipn k (avail s0)) (under s0) (at_eof s0)) in
  let via_bytes s0 :=
    match read_bytes (fuel_of s0) (N.of_nat k) s0 [] with
    | (Ok l, s1) => (Ok (le_dec l), s1)
    | (Eof, s1) => (Eof, s1) | (Fault x, s1) => (Fault x, s1)
    end in
  if Nat.ltb (length (avail s)) k then
    match avail s with
    | [] =>
        match fill false s with
        | (Ok s1, _) => if Nat.leb k (length (avail s1)) then fast s1 else via_bytes s1
        | (Eof, s1) => (Eof, s1)
        | (Fault x, s1) => (Fault x, s1)
        end
    | _ :: _ => via_bytes s
    end
  else fast s.

Definition verify_finished (s : cin) : res unit * cin :=
  if at_eof s then
    match avail s with [] => (Ok tt, s) | _ => (Fault NotFinished, s) end
  else
    match avail s with
    | [] =>
        match fill true s with
        | (Ok s1, _) =>
            if at_eof s1 then
              match avail s1 with [] => (Ok tt, s1) | _ => (Fault NotFinished, s1) end
            else (Fault NotFinished, s1)
        | (Eof, s1) => (Eof, s1)
        | (Fault x, s1) => (Fault x, s1)
        end
    | _ => (Fault NotFinished, s)
    end.

Definition rstep (s : cin) (op : rop) : res rval * cin :=
  match op with
  | RByte => match fetch s with
             | (Ok b, s1) => (Ok (VNum b), s1) | (Eof, s1) => (Eof, s1) | (Fault x, s1) => (Fault x, s1) end
  | RVar w => match read_var w s with
              | (Ok v, s1) => (Ok (VNum v), s1) | (Eof, s1) => (Eof, s1) | (Fault x, s1) => (Fault x, s1) end
  | RFixed k => match read_fixed k s with
                | (Ok v, s1) => (Ok (VNum v), s1) | (Eof, s1) => (Eof, s1) | (Fault x, s1) => (Fault x, s1) end
  | RBytes n => match read_bytes (fuel_of s) n s [] with
                | (Ok l, s1) => (Ok (VBytes l), s1) | (Eof, s1) => (Eof, s1) | (Fault x, s1) => (Fault x, s1) end
  | RVerify => match verify_finished s with
               | (Ok _, s1) => (Ok VUnit, s1) | (Eof, s1) => (Eof, s1) | (Fault x, s1) => (Fault x, s1) end
  end.

(* run a script; stops at the first non-Ok outcome (an exception leaves the reader) *)
Fixpoint rrun (s : cin) (ops : list rop) : list (res rval) :=
  match ops with
  | [] => []
  | op :: rest =>
      match rstep s op with
      | (Ok v, s1) => Ok v :: rrun s1 rest
      | (e, _) => [e]
      end
  end.

End WithBuf.

(* ------------------------------------------------------------------------------------ *)
(* The abstract reader over the not-yet-consumed bytes (no buffer at all)                 *)

Inductive ares (A : Type) := AOk (a : A) (rest : list N) | AEof | AMalformed | ANotFinished.
Arguments AOk {A} a rest.
Arguments AEof {A}.
Arguments AMalformed {A}.
Arguments ANotFinished {A}.

(* at most k bytes of varint; more continuation bytes than that is malformed *)
Fixpoint vdecb (k : nat) (l : list N) : ares N :=
  match k with
  | O => AMalformed
  | S k' =>
      match l with
      | [] => AEof
      | b :: r =>
          if b <? 128 then AOk b r
          else match vdecb k' r with
               | AOk v r' => AOk ((b - 128) + 128 * v) r'
               | AEof => AEof | AMalformed => AMalformed | ANotFinished => ANotFinished
               end
      end
  end.

Definition astep (l : list N) (op : rop) : ares rval :=
  match op with
  | RByte => match l with b :: r => AOk (VNum b) r | [] => AEof end
  | RVar w => match vdecb (max_varint w) l with
              | AOk v r => AOk (VNum (v mod 2 ^ w)) r
              | AEof => AEof | AMalformed => AMalformed | ANotFinished => ANotFinished
              end
  | RFixed k => match take (N.of_nat k) l with
                | Some (h, t) => AOk (VNum (le_dec h)) t
                | None => AEof
                end
  | RBytes n => match take n l with
                | Some (h, t) => AOk (VBytes h) t
                | None => AEof
                end
  | RVerify => match l with [] => AOk VUnit [] | _ => ANotFinished end
  end.

Fixpoint arun (l : list N) (ops : list rop) : list (res rval) :=
  match ops with
  | [] => []
  | op :: rest =>
      match astep l op with
      | AOk v r => Ok v :: arun r rest
      | AEof => [Eof]
      | AMalformed => [Fault UBShift]
      | ANotFinished => [Fault NotFinished]
      end
  end.

(* ------------------------------------------------------------------------------------ *)
(* Output                                                                                 *)

Record cout := mkCout {
  staged : list N;             (* buffer_[0 .. buffer_ptr_) in order *)
  chunks : list (list N)       (* what was handed to the ostream, oldest first *)
}.

Definition cout_init : cout := mkCout [] [].

Inductive wop :=
| WByte (b : N)
| WVar (w : N) (n : N)         (* WriteVarInt32/64 (unsigned) *)
| WFixed (k : nat) (n : N)
| WBytes (l : list N)
| WFlush.

Section WithBufOut.
Variable bufsize : nat.

Definition remaining (s : cout) : nat := bufsize - length (staged s).

Definition flush_buffer (s : cout) : cout :=
  match staged s with
  | [] => s
  | _ => mkCout [] (chunks s ++ [staged s])
  end.

(* unchecked stores into the buffer: going past buffer_end_ptr_ is the explicit Overflow *)
Definition push (l : list N) (s : cout) : res cout :=
  if Nat.ltb bufsize (length (staged s) + length l) then Fault Overflow
  else Ok (mkCout (staged s ++ l) (chunks s)).

Fixpoint write_bytes (fuel : nat) (l : list N) (s : cout) : res cout :=
  match fuel with
  | O => Fault OutOfFuel
  | S f =>
      let rem := remaining s in
      if Nat.leb (length l) rem then push l s
      else
        match (if Nat.ltb 0 rem then push (firstn rem l) s else Ok s) with
        | Ok s1 => write_bytes f (skipn rem l) (flush_buffer s1)
        | e => e
        end
  end.

Definition wstep (s : cout) (op : wop) : res cout :=
  match op with
  | WByte b => push [b] (if Nat.eqb (remaining s) 0 then flush_buffer s else s)
  | WVar w n => push (venc (n mod 2 ^ w))
                  (if Nat.ltb (remaining s) (max_varint w) then flush_buffer s else s)
  | WFixed k n => push (le_enc k n) (if Nat.ltb (remaining s) k then flush_buffer s else s)
  | WBytes l => write_bytes (S (S (length l))) l s
  | WFlush => Ok (flush_buffer s)
  end.

Fixpoint wrun (s : cout) (ops : list wop) : res cout :=
  match ops with
  | [] => Ok s
  | op :: rest => match wstep s op with Ok s1 => wrun s1 rest | e => e end
  end.

(* the destructor flushes *)
Definition wfinish (ops : list wop) : res (list (list N)) :=
  match wrun cout_init ops with
  | Ok s => Ok (chunks (flush_buffer s))
  | Eof => Eof | Fault x => Fault x
  end.

End WithBufOut.

(* abstract writer: the bytes each operation denotes *)
Definition wbytes (op : wop) : list N :=
  match op with
  | WByte b => [b]
  | WVar w n => venc (n mod 2 ^ w)
  | WFixed k n => le_enc k n
  | WBytes l => l
  | WFlush => []
  end.
