(* The two spellings of a type and the structure the YAML front end builds for them (tooling/pkg/dsl/yaml.go:
   convertType / applyTypeTail / itemCases for the short syntax; UnmarshalTypeYAML / UnmarshalTypeCases / Unmarshal*YAML for
   the expanded syntax).  Observed on the real code through the verif hook `yardl-verif types`. *)
From Coq Require Import List NArith Bool.
From YV Require Import Base.Wire Model.Binary Model.Json.
Import ListNotations.
Open Scope N_scope.

Definition adim := (option str * option N)%type.          (* name, length *)

Inductive dimkind := DNone | DVec (len : option N) | DArr (dims : option (list adim)) | DMap | DStream.

(* what the front end builds: a reference with type arguments, or cases (tag, type; None is null) with a dimensionality
   (and the key type of a map) *)
Inductive gty :=
| GSimple (name : str) (args : list gty)
| GGen (cases : list (option gty)) (dim : dimkind) (key : option gty).

(* short syntax, as parsed: name<args>, t?, t*len, t[dims], k->v *)
Inductive sh :=
| SName (name : str) (args : list sh)
| SOptT (t : sh)
| SVecT (len : option N) (t : sh)
| SArrT (dims : option (list adim)) (t : sh)
| SMapT (k v : sh).

(* expanded syntax: a name / !generic, a YAML sequence of cases, !vector, !array, !map *)
Inductive ex :=
| EName (name : str) (args : list ex)
| ESeq (cases : list (option ex))
| EVector (len : option N) (items : ex)
| EArray (dims : option (list adim)) (items : ex)
| EMapping (k v : ex).

(* itemCases: an optional or union given in one piece becomes the cases of the container *)
Definition item_cases (g : gty) : list (option gty) :=
  match g with
  | GGen cs DNone None => if (1 <? N.of_nat (length cs)) then cs else [Some g]
  | _ => [Some g]
  end.

Fixpoint conv_short (s : sh) : gty :=
  match s with
  | SName n args => GSimple n (map conv_short args)
  | SOptT t => GGen [None; Some (conv_short t)] DNone None
  | SVecT len t => GGen (item_cases (conv_short t)) (DVec len) None
  | SArrT dims t => GGen (item_cases (conv_short t)) (DArr dims) None
  | SMapT k v => GGen (item_cases (conv_short v)) DMap (Some (conv_short k))
  end.

(* UnmarshalTypeCases: a YAML sequence gives its elements as cases, anything else goes through itemCases *)
Definition items_of (f : ex -> gty) (x : ex) : list (option gty) :=
  match x with
  | ESeq cs => map (fun c => match c with Some y => Some (f y) | None => None end) cs
  | _ => item_cases (f x)
  end.

Fixpoint conv_expanded (e : ex) : gty :=
  match e with
  | EName n args => GSimple n (map conv_expanded args)
  | ESeq cs => GGen (map (fun c => match c with Some y => Some (conv_expanded y) | None => None end) cs) DNone None
  | EVector len x => GGen (items_of conv_expanded x) (DVec len) None
  | EArray dims x => GGen (items_of conv_expanded x) (DArr dims) None
  | EMapping k v => GGen (items_of conv_expanded v) DMap (Some (conv_expanded k))
  end.

(* the expanded spelling of a type written in the short syntax *)
Fixpoint expand (s : sh) : ex :=
  match s with
  | SName n args => EName n (map expand args)
  | SOptT t => ESeq [None; Some (expand t)]
  | SVecT len t => EVector len (expand t)
  | SArrT dims t => EArray dims (expand t)
  | SMapT k v => EMapping (expand k) (expand v)
  end.

(* ---------- evaluation glue ---------- *)
Definition oeqb {A} (f : A -> A -> bool) (a b : option A) : bool :=
  match a, b with Some x, Some y => f x y | None, None => true | _, _ => false end.
Fixpoint leqb {A} (f : A -> A -> bool) (a b : list A) : bool :=
  match a, b with [], [] => true | x :: ar, y :: br => f x y && leqb f ar br | _, _ => false end.
Definition adim_eqb (a b : adim) : bool := oeqb str_eqb (fst a) (fst b) && oeqb N.eqb (snd a) (snd b).
Definition dim_eqb (a b : dimkind) : bool :=
  match a, b with
  | DNone, DNone | DMap, DMap | DStream, DStream => true
  | DVec x, DVec y => oeqb N.eqb x y
  | DArr x, DArr y => oeqb (leqb adim_eqb) x y
  | _, _ => false
  end.
Fixpoint gty_eqb (a b : gty) {struct a} : bool :=
  match a, b with
  | GSimple n1 a1, GSimple n2 a2 =>
      str_eqb n1 n2 &&
      (fix go (x y : list gty) : bool :=
         match x, y with [], [] => true | p :: pr, q :: qr => gty_eqb p q && go pr qr | _, _ => false end) a1 a2
  | GGen c1 d1 k1, GGen c2 d2 k2 =>
      (fix go (x y : list (option gty)) : bool :=
         match x, y with
         | [], [] => true
         | p :: pr, q :: qr => match p, q with Some u, Some w => gty_eqb u w | None, None => true | _, _ => false end && go pr qr
         | _, _ => false
         end) c1 c2
      && dim_eqb d1 d2
      && match k1, k2 with Some u, Some w => gty_eqb u w | None, None => true | _, _ => false end
  | _, _ => false
  end.

(* (type in the short syntax, structure observed for the short spelling, structure observed for the expanded spelling)
   -> 0 fine | 1 short differs from conv_short | 2 expanded differs from conv_expanded (expand s) *)
Definition tcase := (sh * gty * gty)%type.
Definition tcase_status (c : tcase) : N :=
  let '(s, os, oe) := c in
  if negb (gty_eqb (conv_short s) os) then 1
  else if negb (gty_eqb (conv_expanded (expand s)) oe) then 2 else 0.
