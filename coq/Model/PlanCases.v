(* Serialization plans read out of generated code (harness/lib/plans.py) against the structural types the schema prescribes. *)
From Coq Require Import List NArith ZArith Bool.
From YV Require Import Base.Wire Model.Binary Gen.Tables Model.Json Model.Schema Model.SchemaCases.
Import ListNotations.
Open Scope N_scope.

(* the binary plan that corresponds to an NDJSON plan: names, symbols and the enum/flags distinction are JSON-only *)
Fixpoint jty_erase (t : jty) : ty :=
  match t with
  | JTPrim p => TPrim p
  | JTEnum b _ => TEnum b
  | JTFlags b _ => TEnum b
  | JTOpt e => TOpt (jty_erase e)
  | JTUnion hn cs => TUnion hn (map (fun c => jty_erase (snd c)) cs)
  | JTVec e => TVec (jty_erase e)
  | JTFixVec n e => TFixVec n (jty_erase e)
  | JTArr r e => TArr r (jty_erase e)
  | JTFixArr d e => TFixArr d (jty_erase e)
  | JTDynArr e => TDynArr (jty_erase e)
  | JTMap k v => TMap (jty_erase k) (jty_erase v)
  | JTRec fs => TRec (map (fun c => jty_erase (snd c)) fs)
  end.

(* numpy has no 'size' type: Python NDJSON code names the base of an enum over size as uint64.  Both are unsigned 64-bit
   varints (Proofs.PlanProofs.enum_size_is_uint64), so plans are compared up to this renaming. *)
Fixpoint norm_size (t : ty) : ty :=
  match t with
  | TEnum PSize => TEnum PUint64
  | TPrim _ | TEnum _ => t
  | TOpt e => TOpt (norm_size e)
  | TUnion hn cs => TUnion hn (map norm_size cs)
  | TVec e => TVec (norm_size e)
  | TFixVec n e => TFixVec n (norm_size e)
  | TArr r e => TArr r (norm_size e)
  | TFixArr d e => TFixArr d (norm_size e)
  | TDynArr e => TDynArr (norm_size e)
  | TMap k v => TMap (norm_size k) (norm_size v)
  | TRec fs => TRec (map norm_size fs)
  end.

(* (environment, protocol, plans of the backends in a fixed order) ->
   0 all plans are the structural types of the schema | 1 + i : backend i deviates | 100 the expansion is undefined *)
Definition plcase := (list fdef * fproto * list (list (bool * ty)))%type.
Definition plcase_status (c : plcase) : N :=
  let '(env, fp, plans) := c in
  let w := wire FUEL env fp in
  if negb (forallb (fun x => match snd x with Some _ => true | None => false end) w) then 100 else
  (fix go (ps : list (list (bool * ty))) (i : N) : N :=
     match ps with
     | [] => 0
     | p :: r => if owire_eqb (map (fun x => (fst x, option_map norm_size (snd x))) w)
                                (map (fun x => (fst x, Some (norm_size (snd x)))) p) then go r (i + 1) else 1 + i
     end) plans 0.

(* ---- the C++ layout / trait model against the compiler (harness/checks/c14.py, layout_layer) ---- *)
From YV Require Import Model.CppLayout.

(* record type, observed trait, observed sizeof, observed offsetof of each member *)
Definition laycase := (ty * bool * N * list N)%type.

(* 0: trait, sizeof and offsets agree; 1: a member type has no layout in the model, the trait (false) agrees;
   2: trait differs; 3: sizeof differs; 4: offsets differ *)
Definition laycase_status (c : laycase) : N :=
  let '(t, tr, sz, offs) := c in
  if negb (Bool.eqb (ts true t) tr) then 2
  else match t with
       | TRec fs =>
           match layout t, offsets_of layout fs 0 with
           | Some (s, _), Some o => if negb (s =? sz) then 3 else if list_eq_N o offs then 0 else 4
           | _, _ => 1
           end
       | _ => 1
       end.

(* ---- numpy's aligned structured dtypes against Model.PyTyped.np_layout (harness/checks/c14.py, numpy_layout_layer) ---- *)
From YV Require Import Model.CodedCpp Model.CodedPy Model.PyTyped.
(* record type, numpy itemsize, alignment, packed itemsize, has object-typed members *)
Definition npcase := (ty * N * N * N * bool)%type.
(* 0 agree; 1 not modelled (a member has no numeric dtype); 2 itemsize; 3 alignment; 4 packed size differs *)
Definition npcase_status (c : npcase) : N :=
  let '(t, sz, al, pk, hasobj) := c in
  match np_layout t with
  | Some (s, a, p) => if negb (s =? sz) then 2 else if negb (a =? al) then 3 else if negb (p =? pk) then 4 else 0
  | None => 1
  end.
