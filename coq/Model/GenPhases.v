(* C11 — `yardl generate` as a sequence of phases over an abstract output file system.
   The phase list of the real generateImpl is regenerated from generatecommand.go into Gen/GenerateImpl.v. *)
From Coq Require Import List NArith Bool.
Import ListNotations.

Inductive phase_kind :=
| KLoad        (* packaging.LoadPackage: _package.yml, imports, versions *)
| KConfig      (* updatePackageInfoFromArgs *)
| KValidate    (* validatePackage (or any function named validate...) *)
| KWrite       (* cpp/python/matlab Generate, outputJson: creates / rewrites files under an output directory *)
| KOther.

(* kind, and whether the call's error result is checked and returned immediately *)
Definition phase := (phase_kind * bool)%type.

Definition is_write (p : phase) : bool := match fst p with KWrite => true | _ => false end.
Definition is_gate (p : phase) : bool :=
  match fst p with KLoad | KConfig | KValidate => true | _ => false end.

(* every load/validate phase comes before every write phase, and its error is checked *)
Fixpoint phases_ok (l : list phase) : bool :=
  match l with
  | [] => true
  | p :: r =>
      (if is_write p then forallb (fun q => negb (is_gate q)) r   (* no gate after a write *)
       else if is_gate p then snd p                                 (* a gate's error must be checked *)
       else true)
      && phases_ok r
  end.

(* abstract execution: the file system is a list of (path, content); a write phase that runs replaces the
   outputs of its target; a phase that fails with a checked error stops the run with exit status 1 *)
Definition fs := list (N * N).

Record phase_run := { ok : bool; writes : fs -> fs }.   (* what this phase does on this input *)

Fixpoint run (l : list (phase * phase_run)) (s : fs) : N * fs :=
  match l with
  | [] => (0%N, s)
  | ((k, checked), r) :: rest =>
      let s' := match k with KWrite => writes r s | _ => s end in
      if negb (ok r) && checked then (1%N, s')
      else run rest s'
  end.
