(* Target-language identifiers: reserved-word escaping (internal/*/common/common.go) and definition order.
   The casing functions (formatting.ToSnakeCase, ToPascalCase, ToUpperSnakeCase) are an ORACLE here: a Section variable whose
   values are observed on the real code through the verif hook (`yardl-verif names`). *)
From Coq Require Import List String Bool NArith.
From YV Require Import Base.Wire Model.Binary Model.Json Model.Schema.
Import ListNotations.
Open Scope string_scope.

Definition smem (s : string) (l : list string) : bool := existsb (String.eqb s) l.

Section Escape.
Variable casing : string -> string.
Variable reserved : list string.
Variable suffix : string.

(* checks_cased: is the reserved-word test applied to the cased name (true) or to the model's spelling (false) *)
Definition escape (checks_cased : bool) (name : string) : string :=
  let c := casing name in
  if smem (if checks_cased then c else name) reserved then c ++ suffix else c.

(* the table obligation: escaping a reserved word does not produce another reserved word *)
Definition suffix_leaves_reserved : bool := forallb (fun w => negb (smem (w ++ suffix) reserved)) reserved.
End Escape.

(* ---------- definition order: every definition is emitted after the definitions of its own namespace it uses ---------- *)
Close Scope string_scope.
Open Scope N_scope.

Fixpoint before_last_dot (s : str) : str :=
  match s with
  | [] => []
  | c :: r => if existsb (N.eqb 46) r then c :: before_last_dot r else []
  end.

Definition same_ns (a b : str) : bool := str_eqb (before_last_dot a) (before_last_dot b).

Definition def_refs (d : sdef) : list str := flat_map (vis 64 []) (body_types (d_body d)).

Fixpoint ordered (seen all : list str) (defs : list sdef) : bool :=
  match defs with
  | [] => true
  | d :: r =>
      forallb (fun n => negb (mem_str n all) || negb (same_ns n (d_name d)) || mem_str n seen) (def_refs d)
      && ordered (d_name d :: seen) all r
  end.

Definition env_ordered (env : list fdef) : bool :=
  let defs := map f_def env in ordered [] (map d_name defs) defs.
