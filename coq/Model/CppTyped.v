(* The typed layer of the generated C++ binary writers as a program over the coded output stream: the sequence of
   CodedOutputStream calls (WriteByte, WriteVarInt32/64, WriteBytes) that serializers.h and the generated Write* functions make
   for a value of a resolved type, including the memcpy fast paths taken when IsTriviallySerializable holds (Model/CppLayout.v:
   [ts true]).  Executable definitions only; the tie (harness/checks/c01.py, cpp trace layer) compiles the generated code
   against a copy of coded_stream.h whose five writing methods log their arguments and compares the log with [cpp_wops]. *)
From Coq Require Import List NArith ZArith Bool.
From YV Require Import Base.Wire Model.Binary Model.CodedCpp Model.CppLayout.
Import ListNotations.
Open Scope N_scope.

(* WriteInteger: one byte for 1-byte types, WriteVarInt32 for 2- and 4-byte types, WriteVarInt64 for 8-byte types *)
Definition cpp_int_ops (p : prim) (z : Z) : list wop :=
  match int_width p with
  | Some (s, w) =>
      if w <=? 8 then [WByte (to_unsigned 8 z)]
      else [WVar (if w <=? 32 then 32 else 64) (if s then zz_enc z else Z.to_N z)]
  | None => []
  end.

Definition cpp_prim_ops (p : prim) (v : val) : list wop :=
  match p, v with
  | PFloat32, VBits n => [WBytes (le_enc 4 n)]                       (* WriteTriviallySerializable: WriteBytes(&value, sizeof) *)
  | PFloat64, VBits n => [WBytes (le_enc 8 n)]
  | PCFloat32, VCplx re im => [WBytes (le_enc 4 re ++ le_enc 4 im)]
  | PCFloat64, VCplx re im => [WBytes (le_enc 8 re ++ le_enc 8 im)]
  | PString, VStr b => [WVar 64 (N.of_nat (length b)); WBytes b]
  | _, VInt z => cpp_int_ops p z
  | _, _ => []
  end.

Definition cops_fields (f : ty -> val -> list wop) : list ty -> list val -> list wop :=
  fix go (fs : list ty) (xs : list val) : list wop :=
    match fs, xs with
    | t :: fr, x :: xr => f t x ++ go fr xr
    | _, _ => []
    end.

(* the elements of a vector / array: one WriteBytes of the whole storage when the element type is trivially serializable *)
Definition cpp_data (e : ty) (f : val -> list wop) (xs : list val) : list wop :=
  if ts true e then [WBytes (concat (map (enc e) xs))] else concat (map f xs).

Fixpoint cpp_wops (t : ty) (v : val) {struct t} : list wop :=
  match t, v with
  | TPrim p, _ => cpp_prim_ops p v
  | TEnum b, VInt z => cpp_int_ops b z
  | TOpt _, VNone => [WByte 0]
  | TOpt e, VSome x => WByte 1 :: cpp_wops e x
  | TUnion hn cs, VNone => [WVar 64 0]                                  (* WriteInteger(stream, value.index()), a size_t *)
  | TUnion hn cs, VCase i x => WVar 64 (i + if hn then 1 else 0) :: pick (fun c => cpp_wops c x) [] cs i
  | TVec e, VSeq xs => WVar 64 (N.of_nat (length xs)) :: cpp_data e (cpp_wops e) xs
  | TFixVec n e, VSeq xs => cpp_data e (cpp_wops e) xs
  | TArr rank e, VArr sh xs => map (WVar 64) sh ++ cpp_data e (cpp_wops e) xs
  | TFixArr dims e, VArr sh xs => cpp_data e (cpp_wops e) xs
  | TDynArr e, VArr sh xs => WVar 64 (N.of_nat (length sh)) :: map (WVar 64) sh ++ cpp_data e (cpp_wops e) xs
  | TMap k e, VMapv kvs =>
      WVar 64 (N.of_nat (length kvs)) :: concat (map (fun kv => cpp_wops k (fst kv) ++ cpp_wops e (snd kv)) kvs)
  | TRec fs, VSeq xs =>
      if ts true (TRec fs) then [WBytes (enc (TRec fs) (VSeq xs))]      (* WriteTriviallySerializable(stream, value) *)
      else cops_fields cpp_wops fs xs
  | _, _ => []
  end.

(* a stream step copied with batch capacity 1 (WriteBlock per item) or b > 1 (WriteVector per chunk of at most b items),
   then the end marker WriteInteger(stream, 0U) *)
Fixpoint chunks {A} (fuel : nat) (b : nat) (l : list A) : list (list A) :=
  match fuel with
  | O => []
  | S f => match l with
           | [] => []
           | _ => firstn b l :: chunks f b (skipn b l)
           end
  end.

Definition cpp_stream_ops (t : ty) (batch : nat) (items : list val) : list wop :=
  (if Nat.leb batch 1
   then concat (map (fun x => WVar 32 1 :: cpp_wops t x) items)
   else concat (map (fun c => WVar 64 (N.of_nat (length c)) :: cpp_data t (cpp_wops t) c) (chunks (length items) batch items)))
  ++ [WVar 32 0].

(* ---------- a whole protocol ---------- *)
(* WriteHeader: magic bytes, format version as a fixed 32-bit integer, the schema as a string *)
Definition cpp_header_ops (schema : list N) : list wop :=
  [WBytes magic; WFixed 4 format_version; WVar 64 (N.of_nat (length schema)); WBytes schema].

Inductive cstep := CSVal (t : ty) (v : val) | CSStream (t : ty) (batch : nat) (items : list val).

Definition cstep_ops (s : cstep) : list wop :=
  match s with
  | CSVal t v => cpp_wops t v
  | CSStream t b items => cpp_stream_ops t b items
  end.

Definition cpp_protocol_ops (schema : list N) (steps : list cstep) : list wop :=
  cpp_header_ops schema ++ concat (map cstep_ops steps).

(* evaluation glue for the trace tie *)
Fixpoint leqb (a b : list N) : bool :=
  match a, b with [], [] => true | x :: a', y :: b' => (x =? y) && leqb a' b' | _, _ => false end.

Definition wop_eqb (a b : wop) : bool :=
  match a, b with
  | WByte x, WByte y => x =? y
  | WVar w x, WVar u y => (w =? u) && (x =? y)
  | WFixed k x, WFixed j y => Nat.eqb k j && (x =? y)
  | WBytes x, WBytes y => leqb x y
  (* a named alias of an 8-bit type is written by the generated Write<Alias> function, which takes the memcpy path
     (WriteBytes of one byte) where the resolved type is written with WriteByte: the same byte through either call
     (Proofs.CodedCppOut treats both), so the comparison identifies them *)
  | WByte x, WBytes [y] | WBytes [y], WByte x => x =? y
  | WFlush, WFlush => true
  | _, _ => false
  end.

Fixpoint cfirst_diff (i : N) (a b : list wop) : N :=
  match a, b with
  | [], [] => 0
  | x :: a', y :: b' => if wop_eqb x y then cfirst_diff (i + 1) a' b' else i + 1
  | _, _ => i + 1
  end.

Definition ctrcase := (list N * list cstep * list wop)%type.
Definition ctrcase_status (c : ctrcase) : N :=
  let '(schema, steps, obs) := c in cfirst_diff 0 (cpp_protocol_ops schema steps) obs.
