(* C++ readers decode INTO an existing object (ReadX(stream, T& value)); CopyTo and the documented
   read loops reuse one variable for all items of a stream.  [read_into t old l] models what each
   reader of serializers.h does with the previous contents [old] of its destination:
   - integers, floats, strings, enums: overwritten;
   - optional, union: decoded into a fresh temporary, then assigned;
   - vector / arrays: resized, then each element decoded into the element already there
     (old elements survive a resize; new ones are default-constructed);
   - map: cleared, then entries decoded into fresh temporaries and emplaced;
   - record: field by field into the existing fields. *)
From Coq Require Import List NArith ZArith Bool.
From YV Require Import Base.Wire Model.Binary.
Import ListNotations.
Open Scope N_scope.

Definition vdefault : val := VNone.   (* a default-constructed object; its content never matters (proved) *)

Definition old_elems (old : val) : list val :=
  match old with VSeq xs => xs | VArr _ xs => xs | _ => [] end.

Definition old_nth (olds : list val) (i : nat) : val := nth i olds vdefault.

(* n elements, element i decoded into olds[i] *)
Fixpoint into_n (f : val -> list N -> option (val * list N)) (n : nat) (i : nat) (olds : list val) (l : list N)
  : option (list val * list N) :=
  match n with
  | O => Some ([], l)
  | S n' => match f (old_nth olds i) l with
            | Some (v, r) => match into_n f n' (S i) olds r with
                             | Some (vs, r') => Some (v :: vs, r')
                             | None => None end
            | None => None end
  end.

Definition into_fields (f : ty -> val -> list N -> option (val * list N))
  : list ty -> nat -> list val -> list N -> option (list val * list N) :=
  fix go (fs : list ty) (i : nat) (olds : list val) (l : list N) : option (list val * list N) :=
    match fs with
    | [] => Some ([], l)
    | t :: fr => match f t (old_nth olds i) l with
                 | Some (v, r) => match go fr (S i) olds r with
                                  | Some (vs, r') => Some (v :: vs, r')
                                  | None => None end
                 | None => None end
    end.

Fixpoint read_into (t : ty) (old : val) (l : list N) {struct t} : option (val * list N) :=
  match t with
  | TPrim _ | TEnum _ => dec t l
  | TOpt _ | TUnion _ _ => dec t l                      (* fresh temporary, then assignment *)
  | TMap _ _ => dec t l                                 (* value.clear(); fresh key/value temporaries *)
  | TVec e =>
      match vdec l with
      | Some (n, r) => match into_n (read_into e) (N.to_nat n) 0 (old_elems old) r with
                       | Some (vs, r') => Some (VSeq vs, r') | None => None end
      | None => None
      end
  | TFixVec n e =>
      match into_n (read_into e) (N.to_nat n) 0 (old_elems old) l with
      | Some (vs, r') => Some (VSeq vs, r') | None => None end
  | TArr rank e =>
      match dec_dims (N.to_nat rank) l with
      | Some (sh, r) => match into_n (read_into e) (N.to_nat (prodN sh)) 0 (old_elems old) r with
                        | Some (vs, r') => Some (VArr sh vs, r') | None => None end
      | None => None
      end
  | TFixArr dims e =>
      match into_n (read_into e) (N.to_nat (prodN dims)) 0 (old_elems old) l with
      | Some (vs, r') => Some (VArr dims vs, r') | None => None end
  | TDynArr e =>
      match vdec l with
      | Some (rank, r0) =>
          match dec_dims (N.to_nat rank) r0 with
          | Some (sh, r) => match into_n (read_into e) (N.to_nat (prodN sh)) 0 (old_elems old) r with
                            | Some (vs, r') => Some (VArr sh vs, r') | None => None end
          | None => None
          end
      | None => None
      end
  | TRec fs =>
      match into_fields read_into fs 0 (old_elems old) l with
      | Some (vs, r') => Some (VSeq vs, r')
      | None => None
      end
  end.

(* while (ReadX(value)) out.push_back(value): every item is decoded into the previous item *)
Fixpoint read_stream_reusing (fuel : nat) (t : ty) (cbr : N) (old : val) (l : list N) : option (list val * list N) :=
  match fuel with
  | O => None
  | S f =>
      match (if cbr =? 0 then vdec l else Some (cbr, l)) with
      | None => None
      | Some (c, l1) =>
          if c =? 0 then Some ([], l1)
          else match read_into t old l1 with
               | Some (v, l2) => match read_stream_reusing f t (c - 1) v l2 with
                                 | Some (vs, l3) => Some (v :: vs, l3)
                                 | None => None end
               | None => None
               end
      end
  end.
