(* Reader programs over the C++ coded input stream: the same idea as Model/PyReadProg.v, with the operations of coded_stream.h
   (ReadByte, ReadVarInt32/64 with their byte budgets and 32/64-bit accumulators, ReadFixedInteger, ReadBytes, VerifyFinished). *)
From Coq Require Import List NArith ZArith Bool.
From YV Require Import Base.Wire Model.CodedCpp.
Import ListNotations.
Open Scope N_scope.

Inductive cprog (A : Type) :=
| CRet (a : A)
| CFail                                   (* the generated code throws (invalid union index, ...) *)
| COp (op : rop) (k : rval -> cprog A).
Arguments CRet {A} a.
Arguments CFail {A}.
Arguments COp {A} op k.

Fixpoint cbind {A B} (p : cprog A) (f : A -> cprog B) : cprog B :=
  match p with
  | CRet a => f a
  | CFail => CFail
  | COp op k => COp op (fun v => cbind (k v) f)
  end.

Fixpoint crep {A} (n : nat) (p : cprog A) : cprog (list A) :=
  match n with
  | O => CRet []
  | S n' => cbind p (fun a => cbind (crep n' p) (fun l => CRet (a :: l)))
  end.

(* over byte lists *)
Inductive cares (A : Type) := CVal (a : A) (rest : list N) | CEnd | CBad | CMalformed | CNotFinished.
Arguments CVal {A} a rest.
Arguments CEnd {A}.
Arguments CBad {A}.
Arguments CMalformed {A}.
Arguments CNotFinished {A}.

Fixpoint arun_c {A} (p : cprog A) (l : list N) : cares A :=
  match p with
  | CRet a => CVal a l
  | CFail => CBad
  | COp op k => match astep l op with
                | AOk v r => arun_c (k v) r
                | AEof => CEnd
                | AMalformed => CMalformed
                | ANotFinished => CNotFinished
                end
  end.

(* over the buffered machine *)
Inductive cmres (A : Type) := CMVal (a : A) (s : cin) | CMStop (r : res unit) | CMBad.
Arguments CMVal {A} a s.
Arguments CMStop {A} r.
Arguments CMBad {A}.

Fixpoint mrun_c {A} (bufsize : nat) (p : cprog A) (s : cin) : cmres A :=
  match p with
  | CRet a => CMVal a s
  | CFail => CMBad
  | COp op k => match rstep bufsize s op with
                | (Ok v, s1) => mrun_c bufsize (k v) s1
                | (Eof, _) => CMStop Eof
                | (Fault f, _) => CMStop (Fault f)
                end
  end.
