(* C++ stream readers over an already-positioned input: the single-item ReadBlock and the batch
   ReadBlocksIntoVector of serializers.h, with current_block_remaining_ carried across calls, and the
   generated ReaderBase loops around them (state 3 = "completion not yet observed"). *)
From Coq Require Import List NArith ZArith Bool.
From YV Require Import Base.Wire Model.Binary.
Import ListNotations.
Open Scope N_scope.

Section WithDecoder.
Variable d : list N -> option (val * list N).     (* the element reader *)

(* ReadBlock: Some (Some v, ...) = true with a value, Some (None, ...) = false (end of stream) *)
Definition read_block (cbr : N) (l : list N) : option (option val * N * list N) :=
  match (if cbr =? 0 then vdec l else Some (cbr, l)) with
  | None => None
  | Some (c, l1) =>
      if c =? 0 then Some (None, 0, l1)
      else match d l1 with
           | Some (v, l2) => Some (Some v, c - 1, l2)
           | None => None
           end
  end.

(* while (Read(value)) ...  — all items until the end marker *)
Fixpoint read_items (fuel : nat) (cbr : N) (l : list N) : option (list val * list N) :=
  match fuel with
  | O => None
  | S f =>
      match read_block cbr l with
      | None => None
      | Some (None, _, l1) => Some ([], l1)
      | Some (Some v, c, l1) =>
          match read_items f c l1 with
          | Some (vs, l2) => Some (v :: vs, l2)
          | None => None
          end
      end
  end.

(* the loop of ReadBlocksIntoVector, entered with the block length already loaded *)
Fixpoint rbiv (fuel : nat) (cbr remcap : N) (l : list N) (acc : list val)
  : option (list val * N * list N) :=
  match fuel with
  | O => None
  | S f =>
      if cbr =? 0 then Some (acc, 0, l)
      else
        let rc := N.min cbr remcap in
        match dec_n d (N.to_nat rc) l with
        | None => None
        | Some (vs, l1) =>
            match (if cbr - rc =? 0 then vdec l1 else Some (cbr - rc, l1)) with
            | None => None
            | Some (c2, l2) =>
                if remcap - rc =? 0 then Some (acc ++ vs, c2, l2)
                else rbiv f c2 (remcap - rc) l2 (acc ++ vs)
            end
        end
  end.

(* one call ReadBlocksIntoVector(stream, cbr, destination) with destination.capacity() = cap *)
Definition read_batch (cbr cap : N) (l : list N) : option (list val * N * list N) :=
  match (if cbr =? 0 then vdec l else Some (cbr, l)) with
  | None => None
  | Some (c, l1) => rbiv (S (N.to_nat cap)) c cap l1 []
  end.

(* while (reader.ReadX(values)) out.push_back(values): the batches handed to the caller.
   ReadXImpl returns cbr != 0; when false the base class enters state 3 and reports the (non-empty)
   last batch; the next call only observes completion. *)
Fixpoint read_batches (fuel : nat) (cbr cap : N) (l : list N) : option (list (list val) * list N) :=
  match fuel with
  | O => None
  | S f =>
      match read_batch cbr cap l with
      | None => None
      | Some (vs, c, l1) =>
          if c =? 0 then Some (match vs with [] => [] | _ => [vs] end, l1)
          else match read_batches f c cap l1 with
               | Some (bs, l2) => Some (vs :: bs, l2)
               | None => None
               end
      end
  end.

End WithDecoder.
