(* Floating-point computed fields (double operands): the value generated C++ (`double` arithmetic) and generated Python
   (`float` arithmetic) compute for + - * / and unary minus, as IEEE-754 binary64 operations with round-to-nearest-even
   (Flocq's executable Bplus / Bminus / Bmult / Bdiv).  Integer literals and integer fields used as operands are converted
   exactly (|z| < 2^53 in the harness).  NaN payloads are not compared.  Executable definitions only. *)
From Coq Require Import ZArith List Bool.
From Flocq Require Import IEEE754.BinarySingleNaN IEEE754.Binary IEEE754.Bits Core.
Import ListNotations.
Open Scope Z_scope.

Inductive fop := FAdd | FSub | FMul | FDiv.

Inductive fexpr :=
| FField (i : nat)             (* a double field, given by its bit pattern *)
| FOfInt (z : Z)               (* an integer literal, or the value of an integer field, converted to double *)
| FNeg (a : fexpr)
| FBin (o : fop) (a b : fexpr).

Definition of_int (z : Z) : binary64 := binary_normalize 53 1024 (refl_equal _) (refl_equal _) mode_NE z 0 false.

Fixpoint feval (fields : list Z) (e : fexpr) : binary64 :=
  match e with
  | FField i => b64_of_bits (nth i fields 0)
  | FOfInt z => of_int z
  | FNeg a => b64_opp (feval fields a)
  | FBin o a b =>
      let x := feval fields a in
      let y := feval fields b in
      match o with
      | FAdd => b64_plus mode_NE x y
      | FSub => b64_minus mode_NE x y
      | FMul => b64_mult mode_NE x y
      | FDiv => b64_div mode_NE x y
      end
  end.

(* what the harness compares: the bit pattern, NaNs collapsed *)
Definition fbits (x : binary64) : Z := if Binary.is_nan 53 1024 x then (-1) else bits_of_b64 x.

(* a case: field bit patterns, expression, bits observed in generated Python, bits observed in generated C++ *)
Definition fcase := (list Z * fexpr * Z * Z)%type.
(* 0 agree; 1 Python differs from the model; 2 C++ differs; 3 both *)
Definition fcase_status (c : fcase) : N :=
  let '(fs, e, py, cpp) := c in
  let m := fbits (feval fs e) in
  ((if Z.eqb py m then 0 else 1) + (if Z.eqb cpp m then 0 else 2))%N.

(* ---------- float32 operands ---------- *)
(* generated C++ computes a float32 expression in `float`; generated Python holds float32 fields as Python floats (doubles)
   and computes in double, so its value is the double-precision result on the widened operands *)
Definition of_int32 (z : Z) : binary32 := binary_normalize 24 128 (refl_equal _) (refl_equal _) mode_NE z 0 false.

Fixpoint feval32 (fields : list Z) (e : fexpr) : binary32 :=
  match e with
  | FField i => b32_of_bits (nth i fields 0)
  | FOfInt z => of_int32 z
  | FNeg a => b32_opp (feval32 fields a)
  | FBin o a b =>
      let x := feval32 fields a in
      let y := feval32 fields b in
      match o with
      | FAdd => b32_plus mode_NE x y
      | FSub => b32_minus mode_NE x y
      | FMul => b32_mult mode_NE x y
      | FDiv => b32_div mode_NE x y
      end
  end.

Definition fbits32 (x : binary32) : Z := if Binary.is_nan 24 128 x then (-1) else bits_of_b32 x.

(* float32 bit pattern -> the double with the same value (exact) *)
Definition widen (bits : Z) : Z :=
  let x := b32_of_bits bits in
  match x with
  | B754_zero _ _ s => if s then 2 ^ 63 else 0
  | B754_infinity _ _ s => (if s then 2 ^ 63 else 0) + 2047 * 2 ^ 52
  | B754_nan _ _ _ _ _ => -1
  | B754_finite _ _ s m e _ => bits_of_b64 (binary_normalize 53 1024 (refl_equal _) (refl_equal _) mode_NE (if s then Z.neg m else Z.pos m) e false)
  end.

(* a case: float32 field bit patterns, expression, bits of the double generated Python computed, bits of the float generated C++ computed.
   0 both as modelled (C++ in float, Python in double on the widened operands); 1 Python differs from the double model;
   2 C++ differs from the float model; 3 both *)
Definition f32case := (list Z * fexpr * Z * Z)%type.
Definition f32case_status (c : f32case) : N :=
  let '(fs, e, py, cpp) := c in
  let m32 := fbits32 (feval32 fs e) in
  let m64 := fbits (feval (map widen fs) e) in
  ((if Z.eqb py m64 then 0 else 1) + (if Z.eqb cpp m32 then 0 else 2))%N.

(* do the two languages give the same real value?  (the float result widened = the double result) *)
Definition f32case_same (c : f32case) : bool :=
  let '(fs, e, py, cpp) := c in Z.eqb (widen cpp) py || ((cpp =? -1) && (py =? -1)).
