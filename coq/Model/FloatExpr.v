(* Floating-point computed fields (double operands): the value generated C++ (`double` arithmetic) and generated Python
   (`float` arithmetic) compute for + - * / and unary minus, as IEEE-754 binary64 operations with round-to-nearest-even
   (Flocq's executable Bplus / Bminus / Bmult / Bdiv).  Integer literals and integer fields used as operands are converted
   exactly (|z| < 2^53 in the harness).  NaN payloads are not compared.  Executable definitions only. *)
From Coq Require Import ZArith List Bool.
From Flocq Require Import IEEE754.BinarySingleNaN IEEE754.Binary IEEE754.Bits Core.
Import ListNotations.
Open Scope Z_scope.

Inductive fop := FAdd | FSub | FMul | FDiv.

Inductive fexpr :=
| FField (i : nat)             (* a double field, given by its bit pattern *)
| FOfInt (z : Z)               (* an integer literal, or the value of an integer field, converted to double *)
| FNeg (a : fexpr)
| FBin (o : fop) (a b : fexpr).

Definition of_int (z : Z) : binary64 := binary_normalize 53 1024 (refl_equal _) (refl_equal _) mode_NE z 0 false.

Fixpoint feval (fields : list Z) (e : fexpr) : binary64 :=
  match e with
  | FField i => b64_of_bits (nth i fields 0)
  | FOfInt z => of_int z
  | FNeg a => b64_opp (feval fields a)
  | FBin o a b =>
      let x := feval fields a in
      let y := feval fields b in
      match o with
      | FAdd => b64_plus mode_NE x y
      | FSub => b64_minus mode_NE x y
      | FMul => b64_mult mode_NE x y
      | FDiv => b64_div mode_NE x y
      end
  end.

(* what the harness compares: the bit pattern, NaNs collapsed *)
Definition fbits (x : binary64) : Z := if Binary.is_nan 53 1024 x then (-1) else bits_of_b64 x.

(* a case: field bit patterns, expression, bits observed in generated Python, bits observed in generated C++ *)
Definition fcase := (list Z * fexpr * Z * Z)%type.
(* 0 agree; 1 Python differs from the model; 2 C++ differs; 3 both *)
Definition fcase_status (c : fcase) : N :=
  let '(fs, e, py, cpp) := c in
  let m := fbits (feval fs e) in
  ((if Z.eqb py m then 0 else 1) + (if Z.eqb cpp m then 0 else 2))%N.
