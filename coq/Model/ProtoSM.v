(* L9 — the protocol state machines that yardl generates (C++ protocols.cc, Python protocols.py,
   MATLAB *WriterBase.m / *ReaderBase.m) as functions of the protocol SHAPE (is-stream per step),
   next to structural specifications that do not encode positions in integers.
   Executable definitions only. *)
From Coq Require Import List NArith Bool Arith.
Import ListNotations.

Definition shape := list bool.          (* true = stream step *)

Definition is_stream (sh : shape) (i : nat) : bool := nth i sh false.
Definition in_range (sh : shape) (i : nat) : bool := Nat.ltb i (length sh).
Definition prev_stream (sh : shape) (i : nat) : bool :=
  match i with O => false | S j => is_stream sh j end.

(* =================================================================================== *)
(* C++ writer: `uint8_t state_` = index of the next step                                  *)

Inductive wcall := WVal (i : nat) | WItem (i : nat) | WEnd (i : nat) | WClose.

Definition u8 (n : nat) : nat := n mod 256.

(* state, or None once an exception was thrown *)
Definition cppw_step (sh : shape) (st : nat) (c : wcall) : option nat :=
  match c with
  | WVal i => if in_range sh i && negb (is_stream sh i) && Nat.eqb st i then Some (u8 (i + 1)) else None
  | WItem i => if in_range sh i && is_stream sh i && Nat.eqb st i then Some st else None
  | WEnd i => if in_range sh i && is_stream sh i && Nat.eqb st i then Some (u8 (i + 1)) else None
  | WClose => if Nat.eqb st (length sh) then Some st else None
  end.

Fixpoint run {C} (step : nat -> C -> option nat) (st : nat) (cs : list C) : option nat :=
  match cs with
  | [] => Some st
  | c :: r => match step st c with Some st' => run step st' r | None => None end
  end.

Definition cppw_accepts (sh : shape) (cs : list wcall) : bool :=
  match run (cppw_step sh) 0 cs with Some _ => true | None => false end.

(* structural specification: a position in the shape, no integer encoding *)
Definition specw_step (sh : shape) (pos : nat) (c : wcall) : option nat :=
  match c with
  | WVal i => if Nat.eqb i pos && in_range sh pos && negb (is_stream sh pos) then Some (S pos) else None
  | WItem i => if Nat.eqb i pos && in_range sh pos && is_stream sh pos then Some pos else None
  | WEnd i => if Nat.eqb i pos && in_range sh pos && is_stream sh pos then Some (S pos) else None
  | WClose => if Nat.eqb pos (length sh) then Some pos else None
  end.

Definition specw_accepts (sh : shape) (cs : list wcall) : bool :=
  match run (specw_step sh) 0 cs with Some _ => true | None => false end.

(* MATLAB writer: same logic, `state_` is a double (no wrap-around) *)
Definition matw_step (sh : shape) (st : nat) (c : wcall) : option nat :=
  match c with
  | WVal i => if in_range sh i && negb (is_stream sh i) && Nat.eqb st i then Some (i + 1) else None
  | WItem i => if in_range sh i && is_stream sh i && Nat.eqb st i then Some st else None
  | WEnd i => if in_range sh i && is_stream sh i && Nat.eqb st i then Some (i + 1) else None
  | WClose => if Nat.eqb st (length sh) then Some st else None
  end.
Definition matw_accepts (sh : shape) (cs : list wcall) : bool :=
  match run (matw_step sh) 0 cs with Some _ => true | None => false end.

(* =================================================================================== *)
(* C++ reader: state_ = 2*index, odd = "batch read saw the end, caller has not observed it"  *)

(* the answers of the underlying Read*Impl are part of the call:
   more  = what ReadXImpl returned (item delivered / stream continues) *)
Inductive rcall :=
| RVal (i : nat)
| RItem (i : nat) (more : bool)
| RBatch (i : nat) (more : bool)
| RClose.

Definition cppr_enter (sh : shape) (st i : nat) : option nat :=
  (* the guard shared by all Read<i> methods: state 2i, or the unobserved completion 2i-1 of a preceding stream *)
  if Nat.eqb st (2 * i) then Some (2 * i)
  else if prev_stream sh i && Nat.eqb st (2 * i - 1) then Some (2 * i)
  else None.

Definition cppr_step (sh : shape) (st : nat) (c : rcall) : option nat :=
  match c with
  | RVal i =>
      if in_range sh i && negb (is_stream sh i) then
        match cppr_enter sh st i with Some _ => Some (u8 (2 * i + 2)) | None => None end
      else None
  | RItem i more =>
      if in_range sh i && is_stream sh i then
        if Nat.eqb st (2 * i + 1) then Some (u8 (2 * i + 2))
        else match cppr_enter sh st i with
             | Some s => Some (if more then s else u8 (2 * i + 2))
             | None => None
             end
      else None
  | RBatch i more =>
      if in_range sh i && is_stream sh i then
        if Nat.eqb st (2 * i + 1) then Some (u8 (2 * i + 2))
        else match cppr_enter sh st i with
             | Some s => Some (if more then s else u8 (2 * i + 1))
             | None => None
             end
      else None
  | RClose =>
      if Nat.eqb st (2 * length sh) then Some st
      else if prev_stream sh (length sh) && Nat.eqb st (2 * length sh - 1) then Some (u8 (2 * length sh))
      else None
  end.

Definition cppr_accepts (sh : shape) (cs : list rcall) : bool :=
  match run (cppr_step sh) 0 cs with Some _ => true | None => false end.

(* structural specification *)
Inductive rpos := At (pos : nat) | Ended (pos : nat).   (* Ended pos: stream pos finished inside a batch read *)

Definition rpos_enter (sh : shape) (p : rpos) (i : nat) : bool :=
  match p with
  | At pos => Nat.eqb pos i
  | Ended pos => Nat.eqb (S pos) i
  end.

Definition specr_step (sh : shape) (p : rpos) (c : rcall) : option rpos :=
  match c with
  | RVal i => if in_range sh i && negb (is_stream sh i) && rpos_enter sh p i then Some (At (S i)) else None
  | RItem i more =>
      if in_range sh i && is_stream sh i then
        match p with
        | Ended pos => if Nat.eqb pos i then Some (At (S i))
                       else if Nat.eqb (S pos) i then Some (if more then At i else At (S i)) else None
        | At pos => if Nat.eqb pos i then Some (if more then At i else At (S i)) else None
        end
      else None
  | RBatch i more =>
      if in_range sh i && is_stream sh i then
        match p with
        | Ended pos => if Nat.eqb pos i then Some (At (S i))
                       else if Nat.eqb (S pos) i then Some (if more then At i else Ended i) else None
        | At pos => if Nat.eqb pos i then Some (if more then At i else Ended i) else None
        end
      else None
  | RClose =>
      match p with
      | At pos => if Nat.eqb pos (length sh) then Some p else None
      | Ended pos => if Nat.eqb (S pos) (length sh) then Some (At (length sh)) else None
      end
  end.

Fixpoint runr (sh : shape) (p : rpos) (cs : list rcall) : option rpos :=
  match cs with
  | [] => Some p
  | c :: r => match specr_step sh p c with Some p' => runr sh p' r | None => None end
  end.

Definition specr_accepts (sh : shape) (cs : list rcall) : bool :=
  match runr sh (At 0) cs with Some _ => true | None => false end.

(* MATLAB reader: has_x / read_x with state = step index *)
Inductive mcall := MVal (i : nat) | MHas (i : nat) (more : bool) | MRead (i : nat) | MClose.
Definition matr_step (sh : shape) (st : nat) (c : mcall) : option nat :=
  match c with
  | MVal i => if in_range sh i && negb (is_stream sh i) && Nat.eqb st i then Some (i + 1) else None
  | MHas i more => if in_range sh i && is_stream sh i && Nat.eqb st i then Some (if more then st else i + 1) else None
  | MRead i => if in_range sh i && is_stream sh i && Nat.eqb st i then Some st else None
  | MClose => if Nat.eqb st (length sh) then Some st else None
  end.
Definition matr_accepts (sh : shape) (cs : list mcall) : bool :=
  match run (matr_step sh) 0 cs with Some _ => true | None => false end.

(* =================================================================================== *)
(* Python writer: _state = 2*index, odd = inside stream `index` (at least one write made);
   a following step or close() ends the stream implicitly.  We also count the end markers. *)

Inductive pwcall := PWVal (i : nat) | PWStream (i : nat) | PWClose.

(* state, number of end-of-stream markers written *)
Definition pyw_enter (sh : shape) (st ends i : nat) (allow_odd : bool) : option (nat * nat) :=
  if prev_stream sh i && Nat.eqb st (2 * i - 1) then Some (2 * i, S ends)
  else if Nat.eqb st (2 * i) then Some (st, ends)
  else if allow_odd && Nat.eqb st (2 * i + 1) then Some (st, ends)
  else None.

Definition pyw_step (sh : shape) (se : nat * nat) (c : pwcall) : option (nat * nat) :=
  let '(st, ends) := se in
  match c with
  | PWVal i =>
      if in_range sh i && negb (is_stream sh i) then
        match pyw_enter sh st ends i false with Some (_, e) => Some (2 * i + 2, e) | None => None end
      else None
  | PWStream i =>
      if in_range sh i && is_stream sh i then
        match pyw_enter sh st ends i true with Some (_, e) => Some (2 * i + 1, e) | None => None end
      else None
  | PWClose =>
      if prev_stream sh (length sh) && Nat.eqb st (2 * length sh - 1) then Some (2 * length sh, S ends)
      else if Nat.eqb st (2 * length sh) then Some (st, ends) else None
  end.

Fixpoint runp (sh : shape) (se : nat * nat) (cs : list pwcall) : option (nat * nat) :=
  match cs with
  | [] => Some se
  | c :: r => match pyw_step sh se c with Some se' => runp sh se' r | None => None end
  end.

Definition pyw_run (sh : shape) (cs : list pwcall) : option (nat * nat) := runp sh (0, 0) cs.

Definition count_streams (sh : shape) : nat := length (filter (fun b => b) sh).

(* Python reader: read_<stream>() hands out an iterable; exhausting it (at any later time) sets the state *)
Inductive prcall := PRVal (i : nat) | PRGet (i : nat) | PRExhaust (i : nat) | PRAbandon (i : nat) | PRClose.
Definition pyr_step (sh : shape) (st : nat) (c : prcall) : option nat :=
  match c with
  | PRVal i => if in_range sh i && negb (is_stream sh i) && Nat.eqb st (2 * i) then Some (2 * i + 2) else None
  | PRGet i => if in_range sh i && is_stream sh i && Nat.eqb st (2 * i) then Some (2 * i + 1) else None
  | PRExhaust i => Some (2 * i + 2)
  | PRAbandon i => Some st      (* a partly consumed iterable that is dropped completes nothing *)
  | PRClose => if Nat.eqb st (2 * length sh) then Some st else None
  end.
Definition pyr_accepts (sh : shape) (cs : list prcall) : bool :=
  match run (pyr_step sh) 0 cs with Some _ => true | None => false end.
