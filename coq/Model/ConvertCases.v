(* Evaluation glue for the conversion model (harness/checks/c05.py). *)
From Coq Require Import List NArith ZArith Bool.
From YV Require Import Base.Wire Model.Binary Model.CodedCases Model.BinaryCases Gen.Tables Model.Json Model.Schema Model.Evolution Model.Convert.
Import ListNotations.
Open Scope N_scope.

Definition CFUEL : nat := 40.

Fixpoint find_step (ss : list (estep * swrite)) (n : str) : option (estep * swrite) :=
  match ss with
  | [] => None
  | s :: r => if str_eqb (fst (fst (fst s))) n then Some s else find_step r n
  end.

Definition empty_write (d : estep) : swrite :=
  let '(_, is_stream, t) := d in if is_stream then WItems [] else WVal (zero CFUEL t).

(* what the destination version holds for every one of its steps; None: a documented runtime error *)
Definition conv_step (rn : renames) (src : list (estep * swrite)) (d : estep) : option swrite :=
  match find_step src (fst (fst d)) with
  | None => Some (empty_write d)
  | Some (s, w) =>
      match w with
      | WVal v => option_map WVal (conv rn CFUEL (snd s) (snd d) v)
      | WItems blocks => option_map (fun xs => WItems [xs]) (conv_list (conv rn CFUEL (snd s) (snd d)) (concat blocks))
      end
  end.

Fixpoint all_some_w (l : list (option swrite)) : option (list swrite) :=
  match l with
  | [] => Some []
  | Some x :: r => match all_some_w r with Some xs => Some (x :: xs) | None => None end
  | None :: _ => None
  end.

Definition to_step (s : estep) : step :=
  let '(_, is_stream, t) := s in if is_stream then SStream (ety_ty CFUEL t) else SValue (ety_ty CFUEL t).

(* (renames, source steps with what was written, destination steps, destination schema, observed stream, did the
   implementation fail) -> 0 fine | 100 + i: a runtime error was due at destination step i, the implementation produced a stream | 2 the implementation
   failed where a value was due | 3 the stream does not decode to the converted values (1000 + i: destination step i is the first that differs) | 4 the source values are ill-typed *)
Definition ccase := (renames * list (estep * swrite) * list estep * list N * list N * bool)%type.
Definition ccase_status (c : ccase) : N :=
  let '(rn, src, dst, schema, obs, failed) := c in
  if negb (steps_ok (map (fun s => to_step (fst s)) src) (map snd src)) then 4 else
  match all_some_w (map (conv_step rn src) dst) with
  | None => if failed then 0 else
            (* 100 + index of the first destination step the model has no value for *)
            (fix go (l : list (option swrite)) (i : N) : N :=
               match l with [] => 1 | None :: _ => 100 + i | Some _ :: r => go r (i + 1) end) (map (conv_step rn src) dst) 0
  | Some ws =>
      if failed then 2 else
      match dec_protocol schema (map to_step dst) obs with
      | POk vs => if list_eqb sread_eq vs (map sread_of ws) then 0
                  else (fix go (a b : list sread) (i : N) : N :=
                          match a, b with
                          | x :: ar, y :: br => if sread_eq x y then go ar br (i + 1) else 1000 + i
                          | _, _ => 3
                          end) vs (map sread_of ws) 0
      | _ => 3
      end
  end.
