(* The zig-zag transforms as the three runtimes COMPUTE them, with shifts, masks and exclusive or - not the arithmetic
   definition Base.Wire.zz_enc / zz_dec that the rest of the model uses:
     C++     coded_stream.h  ZigZagEncode32/64:  (static_cast<uintW_t>(v) << 1) ^ static_cast<uintW_t>(v >> (W-1))
                             ZigZagDecode32/64:  static_cast<intW_t>((n >> 1) ^ (~(n & 1) + 1))
     Python  _binary.py      zigzag_encode:      (int_val << 1) ^ (int_val >> 63)          on unbounded ints
                             zigzag_decode:      (value >> 1) ^ -(value & 1)
     MATLAB  CodedOutputStream.m / CodedInputStream.m: bitxor(bitshift(int64(v), 1), bitshift(int64(v), -63)) and
             bitxor(int64(bitshift(uint64(n), -1)), -int64(bitand(uint64(n), 1))) - the 64-bit C++ forms read on int64.
   W-bit unsigned arithmetic is arithmetic modulo 2^W on Z; v >> k on a signed operand is the arithmetic shift (Z.shiftr).
   Executable definitions only; proofs in Proofs/ZigZagBitsProofs.v; the text tie is harness/checks/c01.py zigzag_text_tie. *)
From Coq Require Import ZArith.
Local Open Scope Z_scope.

Definition wrap (w x : Z) : Z := x mod 2 ^ w.                       (* conversion to uintW_t *)
Definition as_signed (w x : Z) : Z :=                               (* static_cast<intW_t> of a uintW_t value *)
  if x <? 2 ^ (w - 1) then x else x - 2 ^ w.

Definition cpp_zz_enc (w v : Z) : Z :=
  Z.lxor (wrap w (Z.shiftl (wrap w v) 1)) (wrap w (Z.shiftr v (w - 1))).
Definition cpp_zz_dec (w n : Z) : Z :=
  as_signed w (Z.lxor (Z.shiftr n 1) (wrap w (wrap w (Z.lnot (Z.land n 1)) + 1))).

Definition py_zz_enc (v : Z) : Z := Z.lxor (Z.shiftl v 1) (Z.shiftr v 63).
Definition py_zz_dec (n : Z) : Z := Z.lxor (Z.shiftr n 1) (- Z.land n 1).
