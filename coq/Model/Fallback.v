(* The "fallback implementation" of the batch read that `yardl generate` writes into protocols.cc for every stream step:

     bool XReaderBase::ReadSImpl(std::vector<T>& values) {
       size_t i = 0;
       while (true) {
         if (i == values.size()) { values.resize(i + 1); }
         if (!ReadSImpl(values[i])) { values.resize(i); return false; }
         i++;
         if (i == values.capacity()) { return true; }
       }
     }

   and the public wrapper around it

     bool XReaderBase::ReadS(std::vector<T>& values) {
       if (values.capacity() == 0) throw ...;
       <state check>
       if (!ReadSImpl(values)) { state_ = 2*i+1; return values.size() > 0; }
       return true;
     }

   Readers without a batch method of their own (the generated NDJSON reader, any hand-written reader) use it; the binary reader
   overrides it (Model.Batch).  The single-item ReadSImpl is the source here: it hands out the next item or says "no more".
   A vector is its contents and its capacity (length contents <= capacity; the wrapper refuses capacity 0). *)
From Coq Require Import List Arith Bool Lia.
Import ListNotations.

Section Fallback.
Variable A : Type.
Variable dflt : A.                                     (* value-initialised element (resize) *)

Fixpoint set_nth (i : nat) (x : A) (l : list A) : list A :=
  match l, i with
  | [], _ => []
  | _ :: r, O => x :: r
  | y :: r, S k => y :: set_nth k x r
  end.

(* one call of ReadSImpl(vector&): (result, contents afterwards, items left in the source) *)
Fixpoint fb (src : list A) (vals : list A) (cap i : nat) : bool * list A * list A :=
  let vals1 := if Nat.eqb i (length vals) then vals ++ [dflt] else vals in
  match src with
  | [] => (false, firstn i vals1, [])
  | x :: r =>
      let vals2 := set_nth i x vals1 in
      if Nat.eqb (S i) cap then (true, vals2, r) else fb r vals2 cap (S i)
  end.

(* the seeded slip: pop_back() instead of resize(i) at the end of the stream *)
Fixpoint fb_popback (src : list A) (vals : list A) (cap i : nat) : bool * list A * list A :=
  let vals1 := if Nat.eqb i (length vals) then vals ++ [dflt] else vals in
  match src with
  | [] => (false, removelast vals1, [])
  | x :: r =>
      let vals2 := set_nth i x vals1 in
      if Nat.eqb (S i) cap then (true, vals2, r) else fb_popback r vals2 cap (S i)
  end.

(* the documented read loop / CopyTo: one vector reused for every batch; what is delivered in total.
   done = the wrapper has seen the end (state 2i+1 -> further calls are protocol errors, the loop has stopped) *)
Section Drain.
Variable one : list A -> list A -> nat -> nat -> bool * list A * list A.
Fixpoint drain (fuel : nat) (src vals : list A) (cap : nat) : list A :=
  match fuel with
  | O => []
  | S f =>
      let '(more, out, rest) := one src vals cap 0 in
      if more then out ++ drain f rest out cap
      else out                                        (* returns values.size() > 0: the last, possibly empty, batch *)
  end.
End Drain.
End Fallback.
Arguments fb {A}. Arguments fb_popback {A}. Arguments drain {A}. Arguments set_nth {A}.
