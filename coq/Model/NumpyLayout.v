(* The Python array fast path: NDArraySerializerBase._write_data hands value.data - the raw bytes of the numpy array - to
   write_bytes_directly when the element serializer is trivially serializable and the element dtype has no padding.  This file
   models the memory image of an element of numpy's aligned structured dtypes (np.dtype(..., align=True): C struct rules,
   a zero-length subarray occupies no byte) so that the claim "those raw bytes are the element-by-element encoding", which
   Model/PyTyped.v builds into [py_wops] (PWDirect of the concatenated encodings), is a theorem rather than an assumption.
   Executable definitions only; sizes are Model.PyTyped.np_layout. *)
From Coq Require Import List NArith ZArith Bool.
From YV Require Import Base.Wire Model.Binary Model.CodedCpp Model.CodedPy Model.PyTyped.
Import ListNotations.
Open Scope N_scope.

Definition npad (n : N) : list (option N) := repeat None (N.to_nat n).
Definition nalign (o a : N) : N := ((o + a - 1) / a) * a.

Definition nimg_fields (img : ty -> val -> list (option N)) : list ty -> list val -> N -> list (option N) :=
  fix go (fs : list ty) (xs : list val) (off : N) : list (option N) :=
    match fs, xs with
    | t :: fr, x :: xr =>
        match np_layout t with
        | Some (s, a, _) => npad (nalign off a - off) ++ img t x ++ go fr xr (nalign off a + s)
        | None => []
        end
    | _, _ => []
    end.

(* the bytes of one element in the array's buffer; None = a padding byte (whatever the allocator left there) *)
Fixpoint nimg (t : ty) (v : val) {struct t} : list (option N) :=
  match t, v with
  | TPrim p, _ => map Some (enc_py (TPrim p) v)                 (* little-endian machine: scalars are their encoding *)
  | TEnum b, _ => map Some (enc_py (TEnum b) v)
  | TFixVec n e, VSeq xs => concat (map (nimg e) xs)
  | TFixArr dims e, VArr sh xs => concat (map (nimg e) xs)
  | TRec fs, VSeq xs =>
      match np_fields np_layout fs 0 1 0 with
      | Some (e, al, _) => nimg_fields nimg fs xs 0 ++ npad (nalign e al - e)
      | None => []
      end
  | _, _ => []
  end.
