(* L6 — the NDJSON mapping of values (docs/reference/ndjson.md as implemented by _ndjson.py and the
   generated C++ adl_serializers): to_json / of_json directed by a type that carries the names the
   mapping needs (field names, enum/flag symbols, union tags).  Strings are UTF-8 byte lists.
   The JSON kind of each primitive comes from the regenerated table Gen.Tables.json_kind_decl.
   Executable definitions only. *)
From Coq Require Import List NArith ZArith Bool.
From YV Require Import Base.Wire Model.Binary Gen.Tables.
Import ListNotations.
Open Scope N_scope.

Definition str := list N.

Fixpoint str_eqb (a b : str) : bool :=
  match a, b with
  | [], [] => true
  | x :: a', y :: b' => (x =? y) && str_eqb a' b'
  | _, _ => false
  end.

Inductive jty :=
| JTPrim (p : prim)
| JTEnum (base : prim) (syms : list (str * Z))
| JTFlags (base : prim) (syms : list (str * N))
| JTOpt (t : jty)
| JTUnion (has_null : bool) (cases : list (str * jty))     (* tag, type; null excluded *)
| JTVec (t : jty)
| JTFixVec (n : N) (t : jty)
| JTArr (rank : N) (t : jty)
| JTFixArr (dims : list N) (t : jty)
| JTDynArr (t : jty)
| JTMap (k v : jty)
| JTRec (fields : list (str * jty)).

Inductive json :=
| JNull
| JBool (b : bool)
| JNum (z : Z)                 (* integers *)
| JFlt (bits : N)              (* a floating point number, carried as the bit pattern at the declared width *)
| JStr (s : str)
| JTimeStr (z : Z)             (* the text of a date / time / datetime, carried as the integer it denotes *)
| JArr (l : list json)
| JObj (l : list (str * json)).

(* JSON kinds as the bit set of ndjsoncommon.go *)
Definition K_NULL := 1. Definition K_BOOL := 2. Definition K_NUM := 4. Definition K_STR := 8.
Definition K_ARR := 16. Definition K_OBJ := 32.

Definition kind_of (j : json) : N :=
  match j with
  | JNull => K_NULL | JBool _ => K_BOOL | JNum _ | JFlt _ => K_NUM | JStr _ | JTimeStr _ => K_STR
  | JArr _ => K_ARR | JObj _ => K_OBJ
  end.

Definition is_string_prim (t : jty) : bool := match t with JTPrim PString => true | _ => false end.

(* GetJsonDataType *)
Definition declared_kind (t : jty) : N :=
  match t with
  | JTPrim p => json_kind_decl p
  | JTEnum _ _ => json_kind_enum
  | JTFlags _ _ => json_kind_flags
  | JTOpt _ => 0                          (* not a legal union case *)
  | JTUnion _ _ => 0                      (* unions may not contain unions *)
  | JTVec _ => json_kind_vector
  | JTFixVec _ _ => json_kind_fixed_vector
  | JTFixArr _ _ => json_kind_fixed_array
  | JTArr _ _ => json_kind_array
  | JTDynArr _ => json_kind_dyn_array
  | JTMap k _ => if is_string_prim k then json_kind_map_string else json_kind_map_other
  | JTRec _ => json_kind_record
  end.

(* a union is written without tags iff the declared kinds of its cases (null included) are pairwise disjoint *)
Fixpoint disjoint_from (acc : N) (ks : list N) : bool :=
  match ks with
  | [] => true
  | k :: r => (N.land k acc =? 0) && disjoint_from (N.lor acc k) r
  end.

Definition simple_union (hn : bool) (cases : list (str * jty)) : bool :=
  disjoint_from 0 ((if hn then [K_NULL] else []) ++ map (fun c => declared_kind (snd c)) cases).

(* can a value of this type be null (then a record omits the field) *)
Definition nullable (t : jty) : bool :=
  match t with JTOpt _ => true | JTUnion hn _ => hn | _ => false end.

(* ---------- enums and flags ---------- *)

Fixpoint sym_of_value (syms : list (str * Z)) (z : Z) : option str :=
  match syms with
  | [] => None
  | (s, v) :: r => if (v =? z)%Z then Some s else sym_of_value r z
  end.

Fixpoint value_of_sym {V} (syms : list (str * V)) (s : str) : option V :=
  match syms with
  | [] => None
  | (s', v) :: r => if str_eqb s' s then Some v else value_of_sym r s
  end.

(* greedy decomposition in declaration order (both backends): returns the symbols taken and the remainder *)
Fixpoint flags_decompose (syms : list (str * N)) (rem : N) : list str * N :=
  match syms with
  | [] => ([], rem)
  | (s, v) :: r =>
      if (v =? 0) || negb (N.land v rem =? v) then flags_decompose r rem
      else let '(taken, rem') := flags_decompose r (N.ldiff rem v) in (s :: taken, rem')
  end.

Definition flags_zero_json (syms : list (str * N)) : json :=
  match find (fun sv => snd sv =? 0) syms with
  | Some (s, _) => JArr [JStr s]
  | None => JArr []
  end.

Definition flags_to_json (syms : list (str * N)) (v : N) : json :=
  if v =? 0 then flags_zero_json syms
  else let '(taken, rem) := flags_decompose syms v in
       if rem =? 0 then JArr (map JStr taken) else JNum (Z.of_N v).

Fixpoint flags_of_syms (syms : list (str * N)) (l : list json) : option N :=
  match l with
  | [] => Some 0
  | JStr s :: r => match value_of_sym syms s, flags_of_syms syms r with
                   | Some v, Some acc => Some (N.lor v acc)
                   | _, _ => None
                   end
  | _ => None
  end.

(* ---------- generic traversals (see Model.Binary for the idiom) ---------- *)

Definition jpick {A} (f : jty -> A) (d : A) : list (str * jty) -> N -> A :=
  fix go (cs : list (str * jty)) (i : N) : A :=
    match cs with
    | [] => d
    | c :: r => if i =? 0 then f (snd c) else go r (i - 1)
    end.

Definition tag_at (cs : list (str * jty)) (i : N) : str :=
  (fix go (cs : list (str * jty)) (i : N) : str :=
     match cs with [] => [] | c :: r => if i =? 0 then fst c else go r (i - 1) end) cs i.

(* ---------- value -> JSON ---------- *)

Definition prim_to_json (p : prim) (v : val) : json :=
  match p, v with
  | PBool, VInt z => JBool (negb (z =? 0)%Z)
  | (PDate | PTime | PDateTime), VInt z => JTimeStr z
  | (PFloat32 | PFloat64), VBits n => JFlt n
  | (PCFloat32 | PCFloat64), VCplx re im => JArr [JFlt re; JFlt im]
  | PString, VStr s => JStr s
  | _, VInt z => JNum z
  | _, _ => JNull
  end.

Definition rec_to_json (f : jty -> val -> json) : list (str * jty) -> list val -> list (str * json) :=
  fix go (fs : list (str * jty)) (xs : list val) : list (str * json) :=
    match fs, xs with
    | (name, t) :: fr, x :: xr =>
        let rest := go fr xr in
        match x with
        | VNone => if nullable t then rest else (name, f t x) :: rest
        | _ => (name, f t x) :: rest
        end
    | _, _ => []
    end.

Fixpoint to_json (t : jty) (v : val) {struct t} : json :=
  match t, v with
  | JTPrim p, _ => prim_to_json p v
  | JTEnum _ syms, VInt z => match sym_of_value syms z with Some s => JStr s | None => JNum z end
  | JTFlags _ syms, VInt z => flags_to_json syms (Z.to_N z)
  | JTOpt _, VNone => JNull
  | JTOpt e, VSome x => to_json e x
  | JTUnion hn cs, VNone => JNull
  | JTUnion hn cs, VCase i x =>
      let inner := jpick (fun c => to_json c x) JNull cs i in
      if simple_union hn cs then inner else JObj [(tag_at cs i, inner)]
  | (JTVec e | JTFixVec _ e), VSeq xs => JArr (map (to_json e) xs)
  | JTFixArr _ e, VArr _ xs => JArr (map (to_json e) xs)
  | (JTArr _ e | JTDynArr e), VArr sh xs =>
      JObj [([115; 104; 97; 112; 101], JArr (map (fun d => JNum (Z.of_N d)) sh));      (* "shape" *)
            ([100; 97; 116; 97], JArr (map (to_json e) xs))]                             (* "data" *)
  | JTMap k e, VMapv kvs =>
      if is_string_prim k then
        JObj (map (fun kv => (match fst kv with VStr s => s | _ => [] end, to_json e (snd kv))) kvs)
      else JArr (map (fun kv => JArr [to_json k (fst kv); to_json e (snd kv)]) kvs)
  | JTRec fs, VSeq xs => JObj (rec_to_json to_json fs xs)
  | _, _ => JNull
  end.

(* ---------- JSON -> value ---------- *)

Definition prim_of_json (p : prim) (j : json) : option val :=
  match p, j with
  | PBool, JBool b => Some (VInt (if b then 1 else 0)%Z)
  | (PDate | PTime | PDateTime), JTimeStr z => Some (VInt z)
  | (PFloat32 | PFloat64), JFlt n => Some (VBits n)
  | (PCFloat32 | PCFloat64), JArr [JFlt re; JFlt im] => Some (VCplx re im)
  | PString, JStr s => Some (VStr s)
  | (PInt8 | PUint8 | PInt16 | PUint16 | PInt32 | PUint32 | PInt64 | PUint64 | PSize), JNum z => Some (VInt z)
  | _, _ => None
  end.

Fixpoint list_of_json (f : json -> option val) (l : list json) : option (list val) :=
  match l with
  | [] => Some []
  | j :: r => match f j, list_of_json f r with
              | Some v, Some vs => Some (v :: vs)
              | _, _ => None
              end
  end.

Fixpoint obj_of_json (f : json -> option val) (l : list (str * json)) : option (list (val * val)) :=
  match l with
  | [] => Some []
  | (k, j) :: r => match f j, obj_of_json f r with
                   | Some v, Some kvs => Some ((VStr k, v) :: kvs)
                   | _, _ => None
                   end
  end.

Fixpoint pairs_of_json (fk fv : json -> option val) (l : list json) : option (list (val * val)) :=
  match l with
  | [] => Some []
  | JArr [a; b] :: r => match fk a, fv b, pairs_of_json fk fv r with
                        | Some k, Some v, Some kvs => Some ((k, v) :: kvs)
                        | _, _, _ => None
                        end
  | _ => None
  end.

Fixpoint lookup_field (name : str) (l : list (str * json)) : option json :=
  match l with
  | [] => None
  | (n, j) :: r => if str_eqb n name then Some j else lookup_field name r
  end.

Definition rec_of_json (f : jty -> json -> option val) : list (str * jty) -> list (str * json) -> option (list val) :=
  fix go (fs : list (str * jty)) (obj : list (str * json)) : option (list val) :=
    match fs with
    | [] => Some []
    | (name, t) :: fr =>
        match (match lookup_field name obj with
               | Some j => f t j
               | None => if nullable t then Some VNone else None      (* an absent nullable field is null *)
               end), go fr obj with
        | Some v, Some vs => Some (v :: vs)
        | _, _ => None
        end
    end.

(* the index of the first case whose declared kind admits the kind of j *)
Fixpoint case_by_kind_from (cs : list (str * jty)) (k : N) (i : N) : option N :=
  match cs with
  | [] => None
  | c :: r => if negb (N.land (declared_kind (snd c)) k =? 0) then Some i else case_by_kind_from r k (i + 1)
  end.
Definition case_by_kind (cs : list (str * jty)) (k : N) : option N := case_by_kind_from cs k 0.

Fixpoint case_by_tag_from (cs : list (str * jty)) (tag : str) (i : N) : option N :=
  match cs with
  | [] => None
  | c :: r => if str_eqb (fst c) tag then Some i else case_by_tag_from r tag (i + 1)
  end.
Definition case_by_tag (cs : list (str * jty)) (tag : str) : option N := case_by_tag_from cs tag 0.

Definition is_jnull (j : json) : bool := match j with JNull => true | _ => false end.

Fixpoint of_json (t : jty) (j : json) {struct t} : option val :=
  match t with
  | JTPrim p => prim_of_json p j
  | JTEnum _ syms =>
      match j with
      | JStr s => match value_of_sym syms s with Some z => Some (VInt z) | None => None end
      | JNum z => Some (VInt z)
      | _ => None
      end
  | JTFlags _ syms =>
      match j with
      | JNum z => Some (VInt z)
      | JArr l => match flags_of_syms syms l with Some n => Some (VInt (Z.of_N n)) | None => None end
      | _ => None
      end
  | JTOpt e =>
      if is_jnull j then Some VNone
      else match of_json e j with Some v => Some (VSome v) | None => None end
  | JTUnion hn cs =>
      if is_jnull j then (if hn then Some VNone else None)
      else if simple_union hn cs then
        match case_by_kind cs (kind_of j) with
        | Some i => match jpick (fun c => of_json c j) None cs i with
                    | Some v => Some (VCase i v) | None => None end
        | None => None
        end
      else
        match j with
        | JObj [(tag, inner)] =>
            match case_by_tag cs tag with
            | Some i => match jpick (fun c => of_json c inner) None cs i with
                        | Some v => Some (VCase i v) | None => None end
            | None => None
            end
        | _ => None
        end
  | JTVec e =>
      match j with JArr l => match list_of_json (of_json e) l with Some vs => Some (VSeq vs) | None => None end | _ => None end
  | JTFixVec n e =>
      match j with
      | JArr l => if N.of_nat (length l) =? n then
                    match list_of_json (of_json e) l with Some vs => Some (VSeq vs) | None => None end
                  else None
      | _ => None
      end
  | JTFixArr dims e =>
      match j with JArr l => match list_of_json (of_json e) l with Some vs => Some (VArr dims vs) | None => None end | _ => None end
  | JTArr _ e | JTDynArr e =>
      match j with
      | JObj [(_, JArr sh); (_, JArr l)] =>
          match list_of_json (fun d => match d with JNum z => Some (VInt z) | _ => None end) sh,
                list_of_json (of_json e) l with
          | Some shv, Some vs => Some (VArr (map (fun d => match d with VInt z => Z.to_N z | _ => 0 end) shv) vs)
          | _, _ => None
          end
      | _ => None
      end
  | JTMap k e =>
      if is_string_prim k then
        match j with
        | JObj l => match obj_of_json (of_json e) l with Some kvs => Some (VMapv kvs) | None => None end
        | _ => None
        end
      else
        match j with
        | JArr l => match pairs_of_json (of_json k) (of_json e) l with Some kvs => Some (VMapv kvs) | None => None end
        | _ => None
        end
  | JTRec fs =>
      match j with
      | JObj l => match rec_of_json of_json fs l with Some vs => Some (VSeq vs) | None => None end
      | _ => None
      end
  end.


(* ---------- typing of types and values (boolean, so hypotheses are decidable) ---------- *)

Fixpoint nodup_str (l : list str) : bool :=
  match l with
  | [] => true
  | x :: r => negb (existsb (str_eqb x) r) && nodup_str r
  end.

(* what yardl's validation guarantees about a union case: not itself optional or a union *)
Definition is_case_ok (t : jty) : bool := match t with JTOpt _ | JTUnion _ _ => false | _ => true end.

Definition jall (f : jty -> bool) : list (str * jty) -> bool :=
  fix go (cs : list (str * jty)) : bool :=
    match cs with [] => true | c :: r => f (snd c) && go r end.

Fixpoint jty_ok (t : jty) : bool :=
  match t with
  | JTPrim _ => true
  | JTEnum _ syms => nodup_str (map fst syms)
  | JTFlags _ syms => nodup_str (map fst syms)
  | JTOpt e => negb (nullable e) && jty_ok e
  | JTUnion _ cs => nodup_str (map fst cs) && jall is_case_ok cs && jall jty_ok cs
  | JTVec e | JTFixVec _ e | JTArr _ e | JTFixArr _ e | JTDynArr e => jty_ok e
  | JTMap k e => jty_ok k && jty_ok e
  | JTRec fs => nodup_str (map fst fs) && jall jty_ok fs
  end.

Definition jall2 (f : jty -> val -> bool) : list (str * jty) -> list val -> bool :=
  fix go (fs : list (str * jty)) (xs : list val) : bool :=
    match fs, xs with
    | [], [] => true
    | c :: fr, x :: xr => f (snd c) x && go fr xr
    | _, _ => false
    end.

Definition is_vstr (v : val) : bool := match v with VStr _ => true | _ => false end.

Fixpoint jhas_type (t : jty) (v : val) {struct t} : bool :=
  match t, v with
  | JTPrim p, _ => prim_ok p v
  | JTEnum b _, VInt z => int_ok b z
  | JTFlags b _, VInt z => int_ok b z && (0 <=? z)%Z        (* flags are bit sets: non-negative *)
  | JTOpt _, VNone => true
  | JTOpt e, VSome x => jhas_type e x
  | JTUnion hn cs, VNone => hn
  | JTUnion hn cs, VCase i x => jpick (fun c => jhas_type c x) false cs i
  | JTVec e, VSeq xs => forallb (jhas_type e) xs
  | JTFixVec n e, VSeq xs => (N.of_nat (length xs) =? n) && forallb (jhas_type e) xs
  | JTArr rank e, VArr sh xs =>
      (N.of_nat (length sh) =? rank) && (N.of_nat (length xs) =? prodN sh) && forallb (jhas_type e) xs
  | JTFixArr dims e, VArr sh xs =>
      list_eq_N sh dims && (N.of_nat (length xs) =? prodN sh) && forallb (jhas_type e) xs
  | JTDynArr e, VArr sh xs => (N.of_nat (length xs) =? prodN sh) && forallb (jhas_type e) xs
  | JTMap k e, VMapv kvs =>
      forallb (fun kv => jhas_type k (fst kv) && jhas_type e (snd kv)) kvs
  | JTRec fs, VSeq xs => jall2 jhas_type fs xs
  | _, _ => false
  end.

(* ---------- the line protocol: one document {"step": value} per value or stream item ---------- *)

Definition jstep := (str * bool * jty)%type.          (* name, is a stream, type *)
Inductive jwrite := JWVal (v : val) | JWItems (items : list val).
Definition line := (str * json)%type.

Definition write_step (s : jstep) (w : jwrite) : list line :=
  let '(name, _, t) := s in
  match w with
  | JWVal v => [(name, to_json t v)]
  | JWItems items => map (fun v => (name, to_json t v)) items
  end.

Fixpoint write_lines (p : list jstep) (ws : list jwrite) : list line :=
  match p, ws with
  | s :: pr, w :: wr => write_step s w ++ write_lines pr wr
  | _, _ => []
  end.

(* reader state: the parsed line that belongs to the next step (unused_step_) and the lines not yet read *)
Definition rstate := (option line * list line)%type.

Definition next_line (st : rstate) : option (line * rstate) :=
  match st with
  | (Some l, rest) => Some (l, (None, rest))
  | (None, l :: rest) => Some (l, (None, rest))
  | (None, []) => None
  end.

Definition read_value (name : str) (t : jty) (st : rstate) : option (val * rstate) :=
  match next_line st with
  | Some ((n, j), st') => if str_eqb n name then match of_json t j with Some v => Some (v, st') | None => None end
                          else None                   (* "missing protocol step" *)
  | None => None
  end.

(* items while the lines carry this step's name; the first other line is kept for the next step *)
Fixpoint read_items_rest (name : str) (t : jty) (rest : list line) : option (list val * rstate) :=
  match rest with
  | [] => Some ([], (None, []))
  | (n, j) :: r =>
      if str_eqb n name then
        match of_json t j, read_items_rest name t r with
        | Some v, Some (vs, st) => Some (v :: vs, st)
        | _, _ => None
        end
      else Some ([], (Some (n, j), r))
  end.

Definition read_items (name : str) (t : jty) (st : rstate) : option (list val * rstate) :=
  match st with
  | (Some (n, j), rest) =>
      if str_eqb n name then
        match of_json t j, read_items_rest name t rest with
        | Some v, Some (vs, st') => Some (v :: vs, st')
        | _, _ => None
        end
      else Some ([], st)
  | (None, rest) => read_items_rest name t rest
  end.

Fixpoint read_lines (p : list jstep) (st : rstate) : option (list jwrite * rstate) :=
  match p with
  | [] => Some ([], st)
  | (name, is_stream, t) :: pr =>
      if is_stream then
        match read_items name t st with
        | Some (vs, st') => match read_lines pr st' with
                            | Some (ws, st'') => Some (JWItems vs :: ws, st'')
                            | None => None end
        | None => None
        end
      else
        match read_value name t st with
        | Some (v, st') => match read_lines pr st' with
                           | Some (ws, st'') => Some (JWVal v :: ws, st'')
                           | None => None end
        | None => None
        end
  end.

Definition jwrite_ok (s : jstep) (w : jwrite) : bool :=
  let '(_, is_stream, t) := s in
  match w with
  | JWVal v => negb is_stream && jhas_type t v
  | JWItems items => is_stream && forallb (jhas_type t) items
  end.

Fixpoint jwrites_ok (p : list jstep) (ws : list jwrite) : bool :=
  match p, ws with
  | [], [] => true
  | s :: pr, w :: wr => jwrite_ok s w && jwrites_ok pr wr
  | _, _ => false
  end.

Definition jproto_ok (p : list jstep) : bool :=
  nodup_str (map (fun s => fst (fst s)) p) && forallb (fun s => jty_ok (snd s)) p.

(* ---------- evaluation glue ---------- *)
Fixpoint json_eqb (a b : json) {struct a} : bool :=
  match a, b with
  | JNull, JNull => true
  | JBool x, JBool y => Bool.eqb x y
  | JNum x, JNum y => (x =? y)%Z
  | JFlt x, JFlt y => x =? y
  | JStr x, JStr y => str_eqb x y
  | JTimeStr x, JTimeStr y => (x =? y)%Z
  | JArr xs, JArr ys =>
      (fix go (xs ys : list json) : bool :=
         match xs, ys with
         | [], [] => true
         | x :: xr, y :: yr => json_eqb x y && go xr yr
         | _, _ => false
         end) xs ys
  | JObj xs, JObj ys =>
      (fix go (xs ys : list (str * json)) : bool :=
         match xs, ys with
         | [], [] => true
         | (k1, x) :: xr, (k2, y) :: yr => str_eqb k1 k2 && json_eqb x y && go xr yr
         | _, _ => false
         end) xs ys
  | _, _ => false
  end.

(* (type, value, documents written by the implementations) -> 0 fine | 1+i: i-th document differs from to_json
   | 100: of_json (to_json v) does not give v back | 101: fine, but outside the hypotheses of the round-trip theorem *)
Definition jcase := (jty * val * list json)%type.

Require Import YV.Model.BinaryCases.

Definition jcase_status (c : jcase) : N :=
  let '(t, v, obs) := c in
  let m := to_json t v in
  match (fix go (obs : list json) (i : N) : N :=
           match obs with
           | [] => 0
           | o :: r => if json_eqb m o then go r (i + 1) else 1 + i
           end) obs 0 with
  | 0 => match of_json t m with
         | Some v' => if veq v v' then (if jty_ok t && jhas_type t v then 0 else 101) else 100
         | None => 100
         end
  | n => n
  end.

(* a whole protocol run: (steps, writes, lines observed from each writer) ->
   0 fine | 1 fine but outside the hypotheses of the theorems | 2 read_lines (write_lines ws) does not give ws back
   | 1000 * (w + 1) + i : line i of writer w differs from write_lines (i = number of lines: the counts differ) *)
Definition lcase := (list jstep * list jwrite * list (list line))%type.

Fixpoint lines_diff (a b : list line) (i : N) : option N :=
  match a, b with
  | [], [] => None
  | (n1, x) :: ar, (n2, y) :: br => if str_eqb n1 n2 && json_eqb x y then lines_diff ar br (i + 1) else Some i
  | _, _ => Some i
  end.

Fixpoint vals_eqb (a b : list val) : bool :=
  match a, b with
  | [], [] => true
  | x :: ar, y :: br => veq x y && vals_eqb ar br
  | _, _ => false
  end.

Fixpoint jwrites_eqb (a b : list jwrite) : bool :=
  match a, b with
  | [], [] => true
  | JWVal x :: ar, JWVal y :: br => veq x y && jwrites_eqb ar br
  | JWItems x :: ar, JWItems y :: br => vals_eqb x y && jwrites_eqb ar br
  | _, _ => false
  end.

Definition lcase_status (c : lcase) : N :=
  let '(p, ws, obs) := c in
  let m := write_lines p ws in
  match (fix go (obs : list (list line)) (w : N) : N :=
           match obs with
           | [] => 0
           | o :: r => match lines_diff m o 0 with Some i => 1000 * (w + 1) + i | None => go r (w + 1) end
           end) obs 0 with
  | 0 => match read_lines p (None, m) with
         | Some (ws', (None, [])) => if jwrites_eqb ws ws' then (if jproto_ok p && jwrites_ok p ws then 0 else 1) else 2
         | _ => 2
         end
  | n => n
  end.
