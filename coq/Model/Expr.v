(* L13 — computed-field expressions over integer fields: static typing as resolveComputedFields does it
   (common type from the regenerated table, small-integer promotion, ** -> float64) and evaluation as the
   generated C++ (fixed width, truncating division) and Python (unbounded, floor division) do it.
   Executable definitions only. *)
From Coq Require Import List NArith ZArith Bool.
From YV Require Import Base.Wire Model.Binary Gen.Tables.
Import ListNotations.
Open Scope Z_scope.

Inductive bop := OAdd | OSub | OMul | ODiv | OPow.

(* the static type of `a op b` for operand types a, b (validation_computed_fields.go, BinaryExpression) *)
Definition numeric_kind (p : prim) : bool :=
  match prim_kind p with 0%N | 1%N | 2%N => true | _ => false end.   (* integer, floating point, complex *)

Definition bin_type (o : bop) (a b : prim) : option prim :=
  if negb (numeric_kind a && numeric_kind b) then None
  else match common_type a b with
       | None => None
       | Some c =>
           match o with
           | OPow => if N.eqb (prim_kind c) 0 then Some PFloat64 else Some c
           | _ => match c with
                  | PInt8 | PUint8 | PInt16 | PUint16 => Some PInt32
                  | _ => Some c
                  end
           end
       end.

(* integer literals get the smallest unsigned type (>= 0) or signed type (< 0) that holds them *)
Definition lit_type (z : Z) : option prim :=
  if 0 <=? z then
    if z <? 2 ^ 8 then Some PUint8 else if z <? 2 ^ 16 then Some PUint16
    else if z <? 2 ^ 32 then Some PUint32 else if z <? 2 ^ 64 then Some PUint64 else None
  else
    if - 2 ^ 7 <=? z then Some PInt8 else if - 2 ^ 15 <=? z then Some PInt16
    else if - 2 ^ 31 <=? z then Some PInt32 else if - 2 ^ 63 <=? z then Some PInt64 else None.

Inductive expr :=
| EField (i : nat)
| ELit (z : Z)
| ENeg (e : expr)
| EBin (o : bop) (a b : expr).

Definition is_int_prim (p : prim) : bool := N.eqb (prim_kind p) 0.

Fixpoint infer (env : list prim) (e : expr) : option prim :=
  match e with
  | EField i => nth_error env i
  | ELit z => lit_type z
  | ENeg a => infer env a                      (* the unary minus keeps the operand's type *)
  | EBin o a b =>
      match infer env a, infer env b with
      | Some ta, Some tb => bin_type o ta tb
      | _, _ => None
      end
  end.

(* ---------- evaluation on integers ---------- *)

Definition irange (p : prim) (z : Z) : bool := int_ok p z.

Definition wrap (p : prim) (z : Z) : Z :=
  match int_width p with
  | Some (true, w) => let m := z mod 2 ^ Z.of_N w in if m <? 2 ^ (Z.of_N w - 1) then m else m - 2 ^ Z.of_N w
  | Some (false, w) => z mod 2 ^ Z.of_N w
  | None => z
  end.

Definition apply_math (o : bop) (x y : Z) : Z :=
  match o with OAdd => x + y | OSub => x - y | OMul => x * y | ODiv => Z.quot x y | OPow => x ^ y end.

(* the mathematical value (no division, no power in the guarded theorem) *)
Fixpoint eval_math (vals : list Z) (e : expr) : Z :=
  match e with
  | EField i => nth i vals 0
  | ELit z => z
  | ENeg a => - eval_math vals a
  | EBin o a b => apply_math o (eval_math vals a) (eval_math vals b)
  end.

(* Python: unbounded integers, `//` is floor division *)
Fixpoint eval_py (vals : list Z) (e : expr) : Z :=
  match e with
  | EField i => nth i vals 0
  | ELit z => z
  | ENeg a => - eval_py vals a
  | EBin o a b =>
      let x := eval_py vals a in let y := eval_py vals b in
      match o with ODiv => Z.div x y | _ => apply_math o x y end
  end.

(* C++: both operands of a binary operator are converted (static_cast) to the type of the expression, the operation is done
   in that type (wrap-around; signed overflow is undefined and modelled as wrap-around too), `/` truncates.  The unary minus
   is applied to the operand as C++ sees it: an operand narrower than int is promoted to int first, so `-(x)` with
   x: uint16 = 127 is the int -127 inside a larger expression; it only becomes 65409 when it is converted to uint16, which
   happens when it is the whole computed field (the return type is the static type). *)
Definition promote (t : prim) : prim :=
  match t with
  | PBool | PInt8 | PUint8 | PInt16 | PUint16 => PInt32
  | _ => t
  end.

(* the value of a sub-expression, in its C++ type *)
Fixpoint eval_cpp_in (env : list prim) (vals : list Z) (e : expr) : Z :=
  match e with
  | EField i => nth i vals 0
  | ELit z => z
  | ENeg a => match infer env a with
              | Some t => wrap (promote t) (- eval_cpp_in env vals a)
              | None => 0
              end
  | EBin o a b =>
      match infer env e with
      | Some t => wrap t (apply_math o (wrap t (eval_cpp_in env vals a)) (wrap t (eval_cpp_in env vals b)))
      | None => 0
      end
  end.

(* the computed field: `return <expression>;` in a function whose return type is the static type *)
Definition eval_cpp (env : list prim) (vals : list Z) (e : expr) : Z :=
  match infer env e with
  | Some t => wrap t (eval_cpp_in env vals e)
  | None => 0
  end.

(* every intermediate mathematical result fits the static type of its node *)
Fixpoint in_range_all (env : list prim) (vals : list Z) (e : expr) : bool :=
  match infer env e with
  | Some t => is_int_prim t && irange t (eval_math vals e)
  | None => false
  end &&
  match e with
  | EField _ | ELit _ => true
  | ENeg a => in_range_all env vals a
  | EBin o a b =>
      match o with ODiv | OPow => false | _ => true end
      && in_range_all env vals a && in_range_all env vals b
      (* the operands must also fit the type the operation is carried out in *)
      && match infer env e with
         | Some t => irange t (eval_math vals a) && irange t (eval_math vals b)
         | None => false
         end
  end.

Definition env_ok (env : list prim) (vals : list Z) : bool :=
  Nat.eqb (length env) (length vals) &&
  forallb (fun pv => is_int_prim (fst pv) && irange (fst pv) (snd pv)) (combine env vals).

(* ---------- evaluation glue ---------- *)
(* (field types, field values, expression, declared static type, value computed by generated Python,
    value computed by generated C++)  -> status
   0 fine; 1 static type differs from [infer]; 2 Python value differs from eval_py; 3 C++ value differs from eval_cpp *)
Definition ecase := (list prim * list Z * expr * option prim * Z * Z)%type.

Definition prim_eqb' (a b : prim) : bool :=
  match a, b with
  | PBool, PBool | PInt8, PInt8 | PUint8, PUint8 | PInt16, PInt16 | PUint16, PUint16 | PInt32, PInt32
  | PUint32, PUint32 | PInt64, PInt64 | PUint64, PUint64 | PSize, PSize | PFloat32, PFloat32
  | PFloat64, PFloat64 | PCFloat32, PCFloat32 | PCFloat64, PCFloat64 | PString, PString | PDate, PDate
  | PTime, PTime | PDateTime, PDateTime => true
  | _, _ => false
  end.

Definition ecase_status (c : ecase) : N :=
  let '(env, vals, e, decl, py, cpp) := c in
  match infer env e, decl with
  | Some t, Some d =>
      if negb (prim_eqb' t d) then 1%N
      else if negb (eval_py vals e =? py) then 2%N
      else if negb (eval_cpp env vals e =? cpp) then 3%N
      else 0%N
  | None, None => 0%N
  | _, _ => 1%N
  end.

(* does the guarded theorem apply, and what is the mathematical value *)
Definition ecase_guard (c : ecase) : bool * Z :=
  let '(env, vals, e, _, _, _) := c in (env_ok env vals && in_range_all env vals e, eval_math vals e).
