(* The validation pipeline of dsl.Validate: passes run in order over a shared error sink; a guarded pass returns at once
   when errors were already reported; the result is an error iff the sink is not empty at the end. *)
From Coq Require Import List String Bool Arith.
Import ListNotations.

Definition pass := (string * bool)%type.            (* name, guarded *)

Section Run.
Variable finds : string -> nat.                     (* oracle: how many errors the pass reports on this input when it runs *)

(* returns the number of errors and the trace (pass, errors already in the sink when it was reached, did it run) *)
Fixpoint run (ps : list pass) (errs : nat) : nat * list (string * nat * bool) :=
  match ps with
  | [] => (errs, [])
  | (name, guarded) :: r =>
      let skip := guarded && negb (errs =? 0) in
      let errs' := if skip then errs else errs + finds name in
      let '(e, tr) := run r errs' in (e, (name, errs, negb skip) :: tr)
  end.

Definition rejected (ps : list pass) : bool := negb (fst (run ps 0) =? 0).
End Run.

Fixpoint index_of (n : string) (ps : list pass) : option nat :=
  match ps with
  | [] => None
  | (m, _) :: r => if String.eqb n m then Some 0 else option_map S (index_of n r)
  end.
Definition guarded_of (n : string) (ps : list pass) : bool :=
  existsb (fun p => String.eqb (fst p) n && snd p) ps.
