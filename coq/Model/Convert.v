(* Documented conversion of values between two versions of a type (docs/cpp/evolution.md; the compatibility serializers
   that tooling/internal/cpp/binary/binary.go generates).  [conv src dst v] is the value of type [dst] that stands for the
   value [v] of type [src]: used with src = old for reading an old stream with the new code, and with src = new for writing
   to an old version.  Unchanged parts are kept exactly, removed parts dropped, added parts take the zero value, a scalar and
   the optional / union containing it convert both ways, integers convert when the value is representable.
   Integers convert to floating point by rounding to nearest-even, floating point to integers by rounding half away from zero
   (std::round) with a runtime error when the integer type cannot hold the result, float32 widens exactly to float64.
   Conversions the model does not cover (number <-> string, float64 -> float32, complex widths) yield None: the harness
   generates none of them. *)
From Coq Require Import List NArith ZArith Bool.
From YV Require Import Base.Wire Model.Binary Gen.Tables Model.Json Model.Schema Model.Evolution.
Import ListNotations.
Open Scope N_scope.

(* the structural type the binary codec encodes with *)
Fixpoint ety_ty (fuel : nat) (t : ety) : ty :=
  match fuel with
  | O => TPrim PBool
  | S f =>
      match t with
      | EPrim p => TPrim p
      | ERec _ fs => TRec (map (fun x => ety_ty f (snd x)) fs)
      | EEnum _ _ b _ => TEnum b
      | EOpt x => TOpt (ety_ty f x)
      | EUnion hn cs => TUnion hn (map (ety_ty f) cs)
      | EVec None x => TVec (ety_ty f x)
      | EVec (Some n) x => TFixVec n (ety_ty f x)
      | EArr None x => TDynArr (ety_ty f x)
      | EArr (Some ds) x =>
          match all_some ds with
          | Some lens => match lens with [] => TArr 0 (ety_ty f x) | _ => TFixArr lens (ety_ty f x) end
          | None => TArr (N.of_nat (length ds)) (ety_ty f x)
          end
      | EMap k v => TMap (ety_ty f k) (ety_ty f v)
      | EParam _ => TPrim PBool
      | EAlias _ x => ety_ty f x
      end
  end.

Fixpoint repeat_val (n : nat) (v : val) : list val := match n with O => [] | S k => v :: repeat_val k v end.

(* "default zero values": 0, "", empty vectors, null optional / union, ... *)
Fixpoint zero (fuel : nat) (t : ety) : val :=
  match fuel with
  | O => VNone
  | S f =>
      match t with
      | EPrim (PFloat32 | PFloat64) => VBits 0
      | EPrim (PCFloat32 | PCFloat64) => VCplx 0 0
      | EPrim PString => VStr []
      | EPrim _ => VInt 0
      | ERec _ fs => VSeq (map (fun x => zero f (snd x)) fs)
      | EEnum _ _ _ _ => VInt 0
      | EOpt _ => VNone
      | EUnion true _ => VNone
      | EUnion false cs => match cs with c :: _ => VCase 0 (zero f c) | [] => VNone end
      | EVec None _ => VSeq []
      | EVec (Some n) x => VSeq (repeat_val (N.to_nat n) (zero f x))
      | EArr None _ => VArr [] [zero f t]
      | EArr (Some ds) x =>
          match all_some ds with
          | Some lens => VArr lens (repeat_val (N.to_nat (prodN lens)) (zero f x))
          | None => VArr (map (fun _ => 0) ds) []
          end
      | EMap _ _ => VMapv []
      | EParam _ => VNone
      | EAlias _ x => zero f x
      end
  end.

Fixpoint find_index {A} (f : A -> bool) (l : list A) (i : N) : option (N * A) :=
  match l with
  | [] => None
  | x :: r => if f x then Some (i, x) else find_index f r (i + 1)
  end.

Fixpoint nth_case (cs : list ety) (i : N) : option ety :=
  match cs with
  | [] => None
  | c :: r => if i =? 0 then Some c else nth_case r (i - 1)
  end.

Fixpoint conv_list (f : val -> option val) (l : list val) : option (list val) :=
  match l with
  | [] => Some []
  | x :: r => match f x, conv_list f r with Some y, Some ys => Some (y :: ys) | _, _ => None end
  end.

(* ---------- conversions between integers and IEEE floating point (pure integer arithmetic on the bit patterns) ---------- *)
Open Scope Z_scope.

(* (precision incl. hidden bit, exponent field width) *)
Definition fmt_of (p : prim) : option (Z * Z) :=
  match p with PFloat32 => Some (24, 8) | PFloat64 => Some (53, 11) | _ => None end.

(* static_cast<float/double>(integer): round to nearest, ties to even; every 64-bit integer is in range *)
Definition z_to_float (prec ew : Z) (z : Z) : N :=
  if z =? 0 then 0%N
  else
    let sgn := if z <? 0 then 1 else 0 in
    let a := Z.abs z in
    let k := Z.log2 a in
    let bias := 2 ^ (ew - 1) - 1 in
    let '(q, k') :=
      if k <? prec then (a * 2 ^ (prec - 1 - k), k)
      else
        let sh := k - (prec - 1) in
        let q0 := a / 2 ^ sh in
        let r := a mod 2 ^ sh in
        let half := 2 ^ (sh - 1) in
        let q1 := if (half <? r) || ((r =? half) && Z.odd q0) then q0 + 1 else q0 in
        if q1 =? 2 ^ prec then (2 ^ (prec - 1), k + 1) else (q1, k) in
    Z.to_N (sgn * 2 ^ (prec - 1 + ew) + (k' + bias) * 2 ^ (prec - 1) + (q - 2 ^ (prec - 1))).

(* the real value of a finite bit pattern as (sign, mantissa, exponent): value = (-1)^sign * m * 2^e; None for inf / NaN *)
Definition float_decode (prec ew : Z) (bits : N) : option (bool * Z * Z) :=
  let b := Z.of_N bits in
  let m := b mod 2 ^ (prec - 1) in
  let e := (b / 2 ^ (prec - 1)) mod 2 ^ ew in
  let s := 0 <? b / 2 ^ (prec - 1 + ew) in
  let bias := 2 ^ (ew - 1) - 1 in
  if e =? 2 ^ ew - 1 then None
  else if e =? 0 then Some (s, m, 1 - bias - (prec - 1))
  else Some (s, m + 2 ^ (prec - 1), e - bias - (prec - 1)).

(* std::round: to the nearest integer, halfway cases away from zero *)
Definition float_round (prec ew : Z) (bits : N) : option Z :=
  match float_decode prec ew bits with
  | None => None
  | Some (s, m, e) =>
      let a := if 0 <=? e then m * 2 ^ e
               else let d := 2 ^ (- e) in if d <=? 2 * (m mod d) then m / d + 1 else m / d in
      Some (if s then - a else a)
  end.

(* float32 -> float64 is exact *)
Definition f32_to_f64 (bits : N) : N :=
  match float_decode 24 8 bits with
  | Some (s, m, e) => if m =? 0 then (if s then 2 ^ 63 else 0)%N
                      else let k := Z.log2 m in
                           Z.to_N ((if s then 2 ^ 63 else 0) + (e + k + 1023) * 2 ^ 52 + (m * 2 ^ (52 - k) - 2 ^ 52))
  | None => (* inf / nan: sign, all-ones exponent, payload moved to the top of the mantissa *)
      let b := Z.of_N bits in
      Z.to_N ((if 0 <? b / 2 ^ 31 then 2 ^ 63 else 0) + 2047 * 2 ^ 52 + (b mod 2 ^ 23) * 2 ^ 29)
  end.
Open Scope N_scope.

Section Conv.
Variable rn : renames.

Definition is_int_prim (p : prim) : bool := prim_kind p =? 0.

Fixpoint conv (fuel : nat) (src dst : ety) (v : val) {struct fuel} : option val :=
  match fuel with
  | O => None
  | S f =>
      let c := conv f in
      let matches (a b : ety) := is_match (cmp rn (S f) a b) in
      match src, dst with
      | EAlias _ s, EAlias _ d => c s d v
      | EAlias _ s, _ => c s dst v
      | _, EAlias _ d => c src d v
      (* scalars *)
      | EPrim a, EPrim b =>
          if prim_eqb a b then Some v
          else match v with
               | VInt z =>
                   if is_int_prim a && is_int_prim b then (if int_ok b z then Some v else None)
                   else if is_int_prim a then
                     match fmt_of b with Some (pr, ew) => Some (VBits (z_to_float pr ew z)) | None => None end
                   else None
               | VBits n =>
                   match fmt_of a with
                   | Some (pr, ew) =>
                       if is_int_prim b then
                         (* documented: rounds to the nearest whole number; a value the integer type cannot hold is a runtime error *)
                         match float_round pr ew n with
                         | Some z => if int_ok b z then Some (VInt z) else None
                         | None => None
                         end
                       else match a, b with
                            | PFloat32, PFloat64 => Some (VBits (f32_to_f64 n))
                            | _, _ => None
                            end
                   | None => None
                   end
               | _ => None
               end
      | EEnum _ _ _ _, EEnum _ _ _ _ => Some v
      | EParam _, EParam _ => Some v
      | ERec _ sf, ERec _ df =>
          match v with
          | VSeq xs =>
              let fields := zip (map fst sf) (zip (map snd sf) xs) in
              option_map VSeq
                ((fix go (ds : list (str * ety)) : option (list val) :=
                    match ds with
                    | [] => Some []
                    | d :: r =>
                        match (match dassoc fields (fst d) with
                               | Some (st, x) => c st (snd d) x
                               | None => Some (zero f (snd d))
                               end), go r with
                        | Some y, Some ys => Some (y :: ys)
                        | _, _ => None
                        end
                    end) df)
          | _ => None
          end
      (* optional on both sides *)
      | EOpt s, EOpt d => match v with VNone => Some VNone | VSome x => option_map VSome (c s d x) | _ => None end
      (* optional <-> union with null *)
      | EOpt s, EUnion true dcs =>
          match v with
          | VNone => Some VNone
          | VSome x => match find_index (fun dc => matches dc s) dcs 0 with
                       | Some (i, dc) => option_map (VCase i) (c s dc x)
                       | None => None
                       end
          | _ => None
          end
      | EUnion true scs, EOpt d =>
          match v with
          | VNone => Some VNone
          | VCase j x => match nth_case scs j with
                         | Some sc => if matches d sc then option_map VSome (c sc d x) else None     (* read / write error *)
                         | None => None
                         end
          | _ => None
          end
      (* union on both sides: a case goes to the first case of the other side it matches; none: error *)
      | EUnion _ scs, EUnion dhn dcs =>
          match v with
          | VNone => if dhn then Some VNone else None
          | VCase j x => match nth_case scs j with
                         | Some sc => match find_index (fun dc => matches dc sc) dcs 0 with
                                      | Some (i, dc) => option_map (VCase i) (c sc dc x)
                                      | None => None
                                      end
                         | None => None
                         end
          | _ => None
          end
      (* optional -> scalar (null reads / writes as the zero value), scalar -> optional *)
      | EOpt s, _ => match v with VNone => Some (zero f dst) | VSome x => c s dst x | _ => None end
      | _, EOpt d => option_map VSome (c src d v)
      (* union -> scalar (another case reads / writes as the zero value), scalar -> union *)
      | EUnion _ scs, _ =>
          match v with
          | VNone => Some (zero f dst)
          | VCase j x => match nth_case scs j with
                         | Some sc => if matches dst sc then c sc dst x else Some (zero f dst)
                         | None => None
                         end
          | _ => None
          end
      | _, EUnion _ dcs =>
          match find_index (fun dc => matches dc src) dcs 0 with
          | Some (i, dc) => option_map (VCase i) (c src dc v)
          | None => None
          end
      (* containers: item by item *)
      | EVec _ s, EVec _ d => match v with VSeq xs => option_map VSeq (conv_list (c s d) xs) | _ => None end
      | EArr _ _, EArr _ _ => Some v
      | EMap _ _, EMap _ _ => Some v
      | _, _ => None
      end
  end.
End Conv.
