(* L5 — the Python buffered reader of tooling/internal/python/static_files/_binary.py (class CodedInputStream)
   as an explicit state machine, parameterised by the buffer size.  Executable definitions only.

   Reading of the code:
   - self._buffer is a bytearray of buffer_size bytes, self._view a memoryview of it that lives as long as the
     stream; [_offset, _last_read_count) are the bytes fetched from the underlying stream and not yet consumed.
     The model keeps exactly those bytes ([pavail]) and the number _last_read_count ([pcnt]).
   - the underlying stream is a BufferedIOBase (BytesIO, BufferedReader): readinto(slice) delivers
     min(len(slice), available) bytes.
   - _fill_buffer moves the unconsumed bytes to the front with
         self._buffer[:remaining] = memoryview(self._buffer)[offset : offset + remaining + 1]
     The right-hand side has remaining + 1 bytes unless it is clipped by the end of the buffer, that is unless
     _last_read_count = buffer_size.  A slice assignment of a different length resizes the bytearray, and a
     bytearray with an exported memoryview (self._view) cannot be resized: BufferError.  The model makes that the
     explicit outcome [PFault BufferErr]; the refinement theorem shows that it arises only when the abstract reader
     is at end-of-input, so it replaces an EOFError and never a value.
   - reads past _last_read_count (stale bytes of the bytearray) are the explicit [PFault PStale]; proved unreachable. *)
From Coq Require Import List NArith ZArith Bool.
From YV Require Import Base.Wire Model.CodedCpp.
Import ListNotations.
Open Scope N_scope.

Inductive pfault := BufferErr | PStale | POutOfFuel.

Inductive pres (A : Type) :=
| POk (a : A)
| PEof                 (* EOFError("Unexpected EOF") *)
| PFault (f : pfault).
Arguments POk {A} a.
Arguments PEof {A}.
Arguments PFault {A} f.

Record pin := mkPin {
  pavail : list N;    (* _buffer[_offset : _last_read_count] *)
  punder : list N;    (* what the underlying stream has not delivered yet *)
  pcnt : nat          (* _last_read_count *)
}.

Definition pin_init (input : list N) : pin := mkPin [] input 0.
Definition ppending (s : pin) : list N := pavail s ++ punder s.

(* read_byte | read_unsigned_varint | read(struct of k bytes) | read_view(n) and read_bytearray(n) *)
Inductive pop := PByte | PVar | PFixed (k : nat) | PBytes (n : N).

Section WithBuf.
Variable bufsize : nat.

(* _fill_buffer(min_count) *)
Definition pfill (min_count : nat) (s : pin) : pres pin * pin :=
  let rem := length (pavail s) in
  if Nat.ltb 0 rem && Nat.ltb (pcnt s) bufsize then (PFault BufferErr, s)
  else
    let k := Nat.min (bufsize - rem) (length (punder s)) in
    let s' := mkPin (pavail s ++ firstn k (punder s)) (skipn k (punder s)) (rem + k) in
    if Nat.ltb 0 min_count && Nat.ltb (rem + k) min_count then (PEof, s') else (POk s', s').

(* read_byte *)
Definition pfetch (s : pin) : pres N * pin :=
  match pavail s with
  | b :: r => (POk b, mkPin r (punder s) (pcnt s))
  | [] =>
      match pfill 1 s with
      | (POk s1, _) =>
          match pavail s1 with
          | b :: r => (POk b, mkPin r (punder s1) (pcnt s1))
          | [] => (PFault PStale, s1)
          end
      | (PEof, s1) => (PEof, s1)
      | (PFault f, s1) => (PFault f, s1)
      end
  end.

(* read_unsigned_varint: result |= (byte & 0x7F) << shift, unbounded integers, no limit on the number of bytes *)
Fixpoint pvar (fuel : nat) (s : pin) (result shift : N) : pres N * pin :=
  match fuel with
  | O => (PFault POutOfFuel, s)
  | S f =>
      match pfetch s with
      | (POk b, s1) =>
          let r := result + (b mod 128) * 2 ^ shift in
          if b <? 128 then (POk r, s1) else pvar f s1 r (shift + 7)
      | (PEof, s1) => (PEof, s1)
      | (PFault x, s1) => (PFault x, s1)
      end
  end.

Definition pfuel_of (s : pin) : nat := S (length (pavail s) + length (punder s)).

(* formatter.unpack_from(self._buffer, self._offset) *)
Definition punpack (k : nat) (s : pin) : pres N * pin :=
  if Nat.ltb (length (pavail s)) k then (PFault PStale, s)
  else (POk (le_dec (firstn k (pavail s))), mkPin (skipn k (pavail s)) (punder s) (pcnt s)).

(* read(formatter) *)
Definition pread_fixed (k : nat) (s : pin) : pres N * pin :=
  if Nat.ltb (length (pavail s)) k then
    match pfill k s with
    | (POk s1, _) => punpack k s1
    | (PEof, s1) => (PEof, s1)
    | (PFault f, s1) => (PFault f, s1)
    end
  else punpack k s.

(* read_view(count) / read_bytearray(count): the same control flow *)
Definition pread_bytes (n : N) (s : pin) : pres (list N) * pin :=
  let rem := length (pavail s) in
  if n <=? N.of_nat rem then
    let c := N.to_nat n in
    (POk (firstn c (pavail s)), mkPin (skipn c (pavail s)) (punder s) (pcnt s))
  else if N.of_nat bufsize <? n then
    (* local buffer: the buffered bytes, then readinto straight from the stream *)
    let need := n - N.of_nat rem in
    if N.of_nat (length (punder s)) <? need then (PEof, mkPin [] [] (pcnt s))
    else
      let c := N.to_nat need in
      (POk (pavail s ++ firstn c (punder s)), mkPin [] (skipn c (punder s)) (pcnt s))
  else
    let c := N.to_nat n in
    match pfill c s with
    | (POk s1, _) =>
        if Nat.ltb (length (pavail s1)) c then (PFault PStale, s1)
        else (POk (firstn c (pavail s1)), mkPin (skipn c (pavail s1)) (punder s1) (pcnt s1))
    | (PEof, s1) => (PEof, s1)
    | (PFault f, s1) => (PFault f, s1)
    end.

Definition pstep (s : pin) (op : pop) : pres rval * pin :=
  match op with
  | PByte => match pfetch s with
             | (POk b, s1) => (POk (VNum b), s1) | (PEof, s1) => (PEof, s1) | (PFault x, s1) => (PFault x, s1) end
  | PVar => match pvar (pfuel_of s) s 0 0 with
            | (POk v, s1) => (POk (VNum v), s1) | (PEof, s1) => (PEof, s1) | (PFault x, s1) => (PFault x, s1) end
  | PFixed k => match pread_fixed k s with
                | (POk v, s1) => (POk (VNum v), s1) | (PEof, s1) => (PEof, s1) | (PFault x, s1) => (PFault x, s1) end
  | PBytes n => match pread_bytes n s with
                | (POk l, s1) => (POk (VBytes l), s1) | (PEof, s1) => (PEof, s1) | (PFault x, s1) => (PFault x, s1) end
  end.

(* run a script; stops at the first exception *)
Fixpoint prun (s : pin) (ops : list pop) : list (pres rval) :=
  match ops with
  | [] => []
  | op :: rest =>
      match pstep s op with
      | (POk v, s1) => POk v :: prun s1 rest
      | (e, _) => [e]
      end
  end.

End WithBuf.

(* ------------------------------------------------------------------------------------ *)
(* The abstract Python reader over the not-yet-consumed bytes (no buffer at all)          *)

Fixpoint pvdec (l : list N) : option (N * list N) :=
  match l with
  | [] => None
  | b :: r =>
      if b <? 128 then Some (b mod 128, r)
      else match pvdec r with
           | Some (v, r') => Some (b mod 128 + 128 * v, r')
           | None => None
           end
  end.

Definition pastep (l : list N) (op : pop) : option (rval * list N) :=
  match op with
  | PByte => match l with b :: r => Some (VNum b, r) | [] => None end
  | PVar => match pvdec l with Some (v, r) => Some (VNum v, r) | None => None end
  | PFixed k => match take (N.of_nat k) l with Some (h, t) => Some (VNum (le_dec h), t) | None => None end
  | PBytes n => match take n l with Some (h, t) => Some (VBytes h, t) | None => None end
  end.

(* the only way the abstract reader fails is running out of input *)
Fixpoint parun (l : list N) (ops : list pop) : list (pres rval) :=
  match ops with
  | [] => []
  | op :: rest =>
      match pastep l op with
      | Some (v, r) => POk v :: parun r rest
      | None => [PEof]
      end
  end.

(* what a caller can tell apart: a value, or an exception (EOFError and the BufferError that replaces it) *)
Definition pnorm {A} (r : pres A) : pres A :=
  match r with
  | PFault BufferErr => PEof
  | x => x
  end.
