(* L5 — the Python buffered reader of tooling/internal/python/static_files/_binary.py (class CodedInputStream)
   as an explicit state machine, parameterised by the buffer size.  Executable definitions only.

   Reading of the code:
   - self._buffer is a bytearray of buffer_size bytes, self._view a memoryview of it that lives as long as the
     stream; [_offset, _last_read_count) are the bytes fetched from the underlying stream and not yet consumed.
     The model keeps exactly those bytes ([pavail]) and the number _last_read_count ([pcnt]).
   - the underlying stream is a BufferedIOBase (BytesIO, BufferedReader): readinto(slice) delivers
     min(len(slice), available) bytes.
   - _fill_buffer moves the unconsumed bytes to the front with
         self._buffer[:remaining] = memoryview(self._buffer)[offset : offset + remaining + 1]
     The right-hand side has remaining + 1 bytes unless it is clipped by the end of the buffer, that is unless
     _last_read_count = buffer_size.  A slice assignment of a different length resizes the bytearray, and a
     bytearray with an exported memoryview (self._view) cannot be resized: BufferError.  The model makes that the
     explicit outcome [PyFault BufferErr]; the refinement theorem shows that it arises only when the abstract reader
     is at end-of-input, so it replaces an EOFError and never a value.
   - reads past _last_read_count (stale bytes of the bytearray) are the explicit [PyFault PStale]; proved unreachable. *)
From Coq Require Import List NArith ZArith Bool.
From YV Require Import Base.Wire Model.CodedCpp.
Import ListNotations.
Open Scope N_scope.

Inductive pfault := BufferErr | PStale | POutOfFuel.

Inductive pyres (A : Type) :=
| PyOk (a : A)
| PyEof                 (* EOFError("Unexpected EOF") *)
| PyFault (f : pfault).
Arguments PyOk {A} a.
Arguments PyEof {A}.
Arguments PyFault {A} f.

Record pin := mkPin {
  pavail : list N;    (* _buffer[_offset : _last_read_count] *)
  punder : list N;    (* what the underlying stream has not delivered yet *)
  pcnt : nat          (* _last_read_count *)
}.

Definition pin_init (input : list N) : pin := mkPin [] input 0.
Definition ppending (s : pin) : list N := pavail s ++ punder s.

(* read_byte | read_unsigned_varint | read(struct of k bytes) | read_view(n) and read_bytearray(n) *)
Inductive pop := PByte | PVar | PFixed (k : nat) | PBytes (n : N).

Section WithBuf.
Variable bufsize : nat.

(* _fill_buffer(min_count) *)
Definition pfill (min_count : nat) (s : pin) : pyres pin * pin :=
  let rem := length (pavail s) in
  if Nat.ltb 0 rem && Nat.ltb (pcnt s) bufsize then (PyFault BufferErr, s)
  else
    let k := Nat.min (bufsize - rem) (length (punder s)) in
    let s' := mkPin (pavail s ++ firstn k (punder s)) (skipn k (punder s)) (rem + k) in
    if Nat.ltb 0 min_count && Nat.ltb (rem + k) min_count then (PyEof, s') else (PyOk s', s').

(* read_byte *)
Definition pfetch (s : pin) : pyres N * pin :=
  match pavail s with
  | b :: r => (PyOk b, mkPin r (punder s) (pcnt s))
  | [] =>
      match pfill 1 s with
      | (PyOk s1, _) =>
          match pavail s1 with
          | b :: r => (PyOk b, mkPin r (punder s1) (pcnt s1))
          | [] => (PyFault PStale, s1)
          end
      | (PyEof, s1) => (PyEof, s1)
      | (PyFault f, s1) => (PyFault f, s1)
      end
  end.

(* read_unsigned_varint: result |= (byte & 0x7F) << shift, unbounded integers, no limit on the number of bytes *)
Fixpoint pvar (fuel : nat) (s : pin) (result shift : N) : pyres N * pin :=
  match fuel with
  | O => (PyFault POutOfFuel, s)
  | S f =>
      match pfetch s with
      | (PyOk b, s1) =>
          let r := result + (b mod 128) * 2 ^ shift in
          if b <? 128 then (PyOk r, s1) else pvar f s1 r (shift + 7)
      | (PyEof, s1) => (PyEof, s1)
      | (PyFault x, s1) => (PyFault x, s1)
      end
  end.

Definition pfuel_of (s : pin) : nat := S (length (pavail s) + length (punder s)).

(* formatter.unpack_from(self._buffer, self._offset) *)
Definition punpack (k : nat) (s : pin) : pyres N * pin :=
  if Nat.ltb (length (pavail s)) k then (PyFault PStale, s)
  else (PyOk (le_dec (firstn k (pavail s))), mkPin (skipn k (pavail s)) (punder s) (pcnt s)).

(* read(formatter) *)
Definition pread_fixed (k : nat) (s : pin) : pyres N * pin :=
  if Nat.ltb (length (pavail s)) k then
    match pfill k s with
    | (PyOk s1, _) => punpack k s1
    | (PyEof, s1) => (PyEof, s1)
    | (PyFault f, s1) => (PyFault f, s1)
    end
  else punpack k s.

(* read_view(count) / read_bytearray(count): the same control flow *)
Definition pread_bytes (n : N) (s : pin) : pyres (list N) * pin :=
  let rem := length (pavail s) in
  if n <=? N.of_nat rem then
    let c := N.to_nat n in
    (PyOk (firstn c (pavail s)), mkPin (skipn c (pavail s)) (punder s) (pcnt s))
  else if N.of_nat bufsize <? n then
    (* local buffer: the buffered bytes, then readinto straight from the stream *)
    let need := n - N.of_nat rem in
    if N.of_nat (length (punder s)) <? need then (PyEof, mkPin [] [] (pcnt s))
    else
      let c := N.to_nat need in
      (PyOk (pavail s ++ firstn c (punder s)), mkPin [] (skipn c (punder s)) (pcnt s))
  else
    let c := N.to_nat n in
    match pfill c s with
    | (PyOk s1, _) =>
        if Nat.ltb (length (pavail s1)) c then (PyFault PStale, s1)
        else (PyOk (firstn c (pavail s1)), mkPin (skipn c (pavail s1)) (punder s1) (pcnt s1))
    | (PyEof, s1) => (PyEof, s1)
    | (PyFault f, s1) => (PyFault f, s1)
    end.

Definition pstep (s : pin) (op : pop) : pyres rval * pin :=
  match op with
  | PByte => match pfetch s with
             | (PyOk b, s1) => (PyOk (VNum b), s1) | (PyEof, s1) => (PyEof, s1) | (PyFault x, s1) => (PyFault x, s1) end
  | PVar => match pvar (pfuel_of s) s 0 0 with
            | (PyOk v, s1) => (PyOk (VNum v), s1) | (PyEof, s1) => (PyEof, s1) | (PyFault x, s1) => (PyFault x, s1) end
  | PFixed k => match pread_fixed k s with
                | (PyOk v, s1) => (PyOk (VNum v), s1) | (PyEof, s1) => (PyEof, s1) | (PyFault x, s1) => (PyFault x, s1) end
  | PBytes n => match pread_bytes n s with
                | (PyOk l, s1) => (PyOk (VBytes l), s1) | (PyEof, s1) => (PyEof, s1) | (PyFault x, s1) => (PyFault x, s1) end
  end.

(* run a script; stops at the first exception *)
Fixpoint prun (s : pin) (ops : list pop) : list (pyres rval) :=
  match ops with
  | [] => []
  | op :: rest =>
      match pstep s op with
      | (PyOk v, s1) => PyOk v :: prun s1 rest
      | (e, _) => [e]
      end
  end.

End WithBuf.

(* ------------------------------------------------------------------------------------ *)
(* The abstract Python reader over the not-yet-consumed bytes (no buffer at all)          *)

Fixpoint pvdec (l : list N) : option (N * list N) :=
  match l with
  | [] => None
  | b :: r =>
      if b <? 128 then Some (b mod 128, r)
      else match pvdec r with
           | Some (v, r') => Some (b mod 128 + 128 * v, r')
           | None => None
           end
  end.

Definition pastep (l : list N) (op : pop) : option (rval * list N) :=
  match op with
  | PByte => match l with b :: r => Some (VNum b, r) | [] => None end
  | PVar => match pvdec l with Some (v, r) => Some (VNum v, r) | None => None end
  | PFixed k => match take (N.of_nat k) l with Some (h, t) => Some (VNum (le_dec h), t) | None => None end
  | PBytes n => match take n l with Some (h, t) => Some (VBytes h, t) | None => None end
  end.

(* the only way the abstract reader fails is running out of input *)
Fixpoint parun (l : list N) (ops : list pop) : list (pyres rval) :=
  match ops with
  | [] => []
  | op :: rest =>
      match pastep l op with
      | Some (v, r) => PyOk v :: parun r rest
      | None => [PyEof]
      end
  end.

(* what a caller can tell apart: a value, or an exception (EOFError and the BufferError that replaces it) *)
Definition pnorm {A} (r : pyres A) : pyres A :=
  match r with
  | PyFault BufferErr => PyEof
  | x => x
  end.

(* ------------------------------------------------------------------------------------ *)
(* Output: class CodedOutputStream                                                        *)
(* self._buffer[0 : _offset] = [pstaged]; every self._stream.write(..) is one element of [pchunks]. *)

Inductive pwfault := IndexErr (* bytearray index out of range *) | StructErr (* struct.error *) | AssertErr.

Inductive pwres (A : Type) := PWOk (a : A) | PWFault (f : pwfault).
Arguments PWOk {A} a.
Arguments PWFault {A} f.

Record pout := mkPout {
  pstaged : list N;
  pchunks : list (list N)
}.

Definition pout_init : pout := mkPout [] [].

Inductive pwop :=
| PWEnsure (n : nat)          (* ensure_capacity(n) *)
| PWByteNC (b : N)            (* write_byte_no_check(b) *)
| PWByte (b : N)              (* ensure_capacity(1); write_byte_no_check(b)  - the only way generated code writes a byte *)
| PWVar (n : N)               (* write_unsigned_varint(n) *)
| PWFixed (k : nat) (n : N)   (* write(struct of k bytes, n) *)
| PWBytes (l : list N)        (* write_bytes(l) *)
| PWDirect (l : list N)       (* write_bytes_directly(l) *)
| PWFlush.

Section WithBufOut.
Variable bufsize : nat.

Definition premaining (s : pout) : nat := bufsize - length (pstaged s).

Definition pflush (s : pout) : pout :=
  match pstaged s with
  | [] => s
  | _ => mkPout [] (pchunks s ++ [pstaged s])
  end.

Definition pensure (n : nat) (s : pout) : pout := if Nat.ltb (premaining s) n then pflush s else s.

Definition pbyte_nc (b : N) (s : pout) : pwres pout :=
  if negb (b <? 256) then PWFault AssertErr
  else if Nat.ltb (length (pstaged s)) bufsize then PWOk (mkPout (pstaged s ++ [b]) (pchunks s))
  else PWFault IndexErr.

Fixpoint pbytes_nc (l : list N) (s : pout) : pwres pout :=
  match l with
  | [] => PWOk s
  | b :: r => match pbyte_nc b s with PWOk s1 => pbytes_nc r s1 | e => e end
  end.

Definition pwstep (s : pout) (op : pwop) : pwres pout :=
  match op with
  | PWEnsure n => PWOk (pensure n s)
  | PWByteNC b => pbyte_nc b s
  | PWByte b => pbyte_nc b (pensure 1 s)
  | PWVar n => pbytes_nc (venc n) (pensure 10 s)
  | PWFixed k n =>
      let s1 := pensure k s in
      if negb (n <? 256 ^ N.of_nat k) then PWFault StructErr
      else if Nat.ltb bufsize (length (pstaged s1) + k) then PWFault StructErr     (* pack_into past the end *)
      else PWOk (mkPout (pstaged s1 ++ le_enc k n) (pchunks s1))
  | PWBytes l =>
      if Nat.ltb (premaining s) (length l) then
        let s1 := pflush s in PWOk (mkPout [] (pchunks s1 ++ [l]))
      else PWOk (mkPout (pstaged s ++ l) (pchunks s))
  | PWDirect l => let s1 := pflush s in PWOk (mkPout [] (pchunks s1 ++ [l]))
  | PWFlush => PWOk (pflush s)
  end.

Fixpoint pwrun (s : pout) (ops : list pwop) : pwres pout :=
  match ops with
  | [] => PWOk s
  | op :: rest => match pwstep s op with PWOk s1 => pwrun s1 rest | e => e end
  end.

(* close() flushes *)
Definition pwfinish (ops : list pwop) : pwres (list (list N)) :=
  match pwrun pout_init ops with
  | PWOk s => PWOk (pchunks (pflush s))
  | PWFault x => PWFault x
  end.

End WithBufOut.

(* the bytes each operation denotes *)
Definition pwbytes (op : pwop) : list N :=
  match op with
  | PWEnsure _ | PWFlush => []
  | PWByteNC b | PWByte b => [b]
  | PWVar n => venc n
  | PWFixed k n => le_enc k n
  | PWBytes l | PWDirect l => l
  end.
