(* Evaluation glue for the correspondence checks of the typed codec. *)
From Coq Require Import List NArith ZArith Bool.
From YV Require Import Base.Wire Model.Binary Model.CodedCases.
Import ListNotations.
Open Scope N_scope.

(* value equality; map entries compared as a set (C++ unordered_map order is arbitrary) *)
Fixpoint veq (a b : val) {struct a} : bool :=
  match a, b with
  | VInt x, VInt y => (x =? y)%Z
  | VBits x, VBits y => x =? y
  | VCplx r1 i1, VCplx r2 i2 => (r1 =? r2) && (i1 =? i2)
  | VStr x, VStr y => list_eqb N.eqb x y
  | VNone, VNone => true
  | VSome x, VSome y => veq x y
  | VCase i x, VCase j y => (i =? j) && veq x y
  | VSeq xs, VSeq ys =>
      (fix go (xs ys : list val) : bool :=
         match xs, ys with
         | [], [] => true
         | x :: xr, y :: yr => veq x y && go xr yr
         | _, _ => false
         end) xs ys
  | VArr s1 xs, VArr s2 ys =>
      list_eqb N.eqb s1 s2 &&
      (fix go (xs ys : list val) : bool :=
         match xs, ys with
         | [], [] => true
         | x :: xr, y :: yr => veq x y && go xr yr
         | _, _ => false
         end) xs ys
  | VMapv xs, VMapv ys =>
      Nat.eqb (length xs) (length ys) &&
      (fix go (xs : list (val * val)) : bool :=
         match xs with
         | [] => true
         | (k, v) :: xr => existsb (fun kv => veq k (fst kv) && veq v (snd kv)) ys && go xr
         end) xs
  | _, _ => false
  end.

Definition sread_eq (a b : sread) : bool :=
  match a, b with
  | RVal x, RVal y => veq x y
  | RItems xs, RItems ys => list_eqb veq xs ys
  | _, _ => false
  end.

(* (schema, protocol, what was written, reference body bytes, observed complete streams) *)
Definition pcase := (list N * protocol * list swrite * list N * list (list N))%type.

(* 0 = fine; 1 = harness reference encoder disagrees with the model; 2 = ill-typed case;
   3+i = i-th observed stream does not decode to the written values *)
Definition pcase_status (c : pcase) : N :=
  let '(schema, p, ws, body, obs) := c in
  if negb (steps_ok p ws) then 2
  else if negb (list_eqb N.eqb (enc_steps p ws) body) then 1
  else
    (fix go (obs : list (list N)) (i : N) : N :=
       match obs with
       | [] => 0
       | o :: r =>
           match dec_protocol schema p o with
           | POk vs => if list_eqb sread_eq vs (map sread_of ws) then go r (i + 1) else 3 + i
           | _ => 3 + i
           end
       end) obs 0.

Definition statuses (l : list pcase) : list N := map pcase_status l.

(* header cases: (expected schema, protocol, stream bytes, did the implementation accept it?) *)
Definition hcase := (list N * protocol * list N * bool)%type.
Definition hcase_ok (c : hcase) : bool :=
  let '(schema, p, l, accepted) := c in
  Bool.eqb (match dec_protocol schema p l with POk _ => true | _ => false end) accepted.
