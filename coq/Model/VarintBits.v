(* The unsigned varint writer loops as the runtimes COMPUTE them, with masks, or and shifts:
     C++     coded_stream.h WriteVarInt:  while (value > 0x7F) { *p++ = static_cast<uint8_t>(value) | 0x80; value >>= 7; }
                                          *p++ = static_cast<uint8_t>(value);
     Python  _binary.py write_unsigned_varint: while True: if int_val < 0x80: write(int_val); return
                                               write((int_val & 0x7F) | 0x80); int_val >>= 7
   Base.Wire.venc states the same loop with mod and div.  Fuel as in venc (N.size rounds suffice).  Executable definitions
   only; proofs in Proofs/VarintBitsProofs.v; text tie: harness/checks/c01.py varint_text_tie. *)
From Coq Require Import List NArith.
Import ListNotations.
Local Open Scope N_scope.

Fixpoint cpp_venc_fuel (fuel : nat) (n : N) : list N :=
  match fuel with
  | O => [n mod 256]
  | S f => if 127 <? n then N.lor (n mod 256) 128 :: cpp_venc_fuel f (N.shiftr n 7) else [n mod 256]
  end.
Definition cpp_venc (n : N) : list N := cpp_venc_fuel (N.to_nat (N.size n)) n.

Fixpoint py_venc_fuel (fuel : nat) (n : N) : list N :=
  match fuel with
  | O => [n]
  | S f => if n <? 128 then [n] else N.lor (N.land n 127) 128 :: py_venc_fuel f (N.shiftr n 7)
  end.
Definition py_venc (n : N) : list N := py_venc_fuel (N.to_nat (N.size n)) n.

(* The reader loop of Python's read_unsigned_varint (unbounded result) and of C++ ReadVarIntegerFastFromArray (before its
   W-bit truncation): `result |= (byte & 0x7F) << shift; if byte < 0x80: return result; shift += 7`, structural on the
   bytes still to come. *)
Fixpoint vdec_acc (l : list N) (shift result : N) : option (N * list N) :=
  match l with
  | [] => None
  | b :: r =>
      let result' := N.lor result (N.shiftl (N.land b 127) shift) in
      if b <? 128 then Some (result', r) else vdec_acc r (shift + 7) result'
  end.
Definition vdec_bits (l : list N) : option (N * list N) := vdec_acc l 0 0.
