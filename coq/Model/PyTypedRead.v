(* The typed layer of the generated Python binary readers as reader programs over the coded input stream: the sequence of
   CodedInputStream calls the serializer classes of _binary.py make to read a value of a resolved type, each continuing with
   what the call returned.  Executable definitions only. *)
From Coq Require Import List NArith ZArith Bool.
From YV Require Import Base.Wire Model.Binary Model.CodedCpp Model.CodedPy Model.PyTyped Model.PyReadProg.
Import ListNotations.
Open Scope N_scope.

Definition rd_byte {A} (k : N -> rprog A) : rprog A :=
  ROp PByte (fun v => match v with VNum n => k n | _ => RFail end).
Definition rd_var {A} (k : N -> rprog A) : rprog A :=
  ROp PVar (fun v => match v with VNum n => k n | _ => RFail end).
Definition rd_fixed {A} (w : nat) (k : N -> rprog A) : rprog A :=
  ROp (PFixed w) (fun v => match v with VNum n => k n | _ => RFail end).
Definition rd_bytes {A} (n : N) (k : list N -> rprog A) : rprog A :=
  ROp (PBytes n) (fun v => match v with VBytes l => k l | _ => RFail end).

Definition py_read_int (p : prim) : rprog val :=
  match int_width p with
  | Some (s, w) =>
      if w <=? 8 then rd_fixed 1 (fun n => RRet (VInt (if s then to_signed 8 n else Z.of_N n)))     (* struct "<?", "<b", "<B" *)
      else rd_var (fun n => RRet (VInt (if s then zz_dec n else Z.of_N n)))                           (* read_(un)signed_varint *)
  | None => RFail
  end.

Definition py_read_prim (p : prim) : rprog val :=
  match p with
  | PFloat32 => rd_fixed 4 (fun n => RRet (VBits n))
  | PFloat64 => rd_fixed 8 (fun n => RRet (VBits n))
  | PCFloat32 => rd_fixed 8 (fun n => RRet (VCplx (n mod 2 ^ 32) (n / 2 ^ 32)))
  | PCFloat64 => rd_fixed 16 (fun n => RRet (VCplx (n mod 2 ^ 64) (n / 2 ^ 64)))
  | PString => rd_var (fun n => rd_bytes n (fun bs => RRet (VStr bs)))
  | _ => py_read_int p
  end.

Definition read_fields (f : ty -> rprog val) : list ty -> rprog (list val) :=
  fix go (fs : list ty) : rprog (list val) :=
    match fs with
    | [] => RRet []
    | t :: r => bind (f t) (fun x => bind (go r) (fun xs => RRet (x :: xs)))
    end.

(* the data of an array: one read_bytearray of count * itemsize bytes reinterpreted element by element when the element type
   is trivially serializable and its dtype has no padding, element by element otherwise *)
Definition read_data (e : ty) (rd : rprog val) (count : N) : rprog (list val) :=
  if py_fast e then
    match np_layout e with
    | Some (s, _, _) =>
        rd_bytes (count * s) (fun bs =>
          match arun_p (rep (N.to_nat count) rd) bs with
          | PVal xs [] => RRet xs
          | _ => RFail
          end)
    | None => RFail
    end
  else rep (N.to_nat count) rd.

Fixpoint py_read (t : ty) : rprog val :=
  match t with
  | TPrim p => py_read_prim p
  | TEnum b => py_read_int b
  | TOpt e => rd_byte (fun b => if b =? 0 then RRet VNone else bind (py_read e) (fun v => RRet (VSome v)))
  | TUnion hn cs =>
      rd_byte (fun idx =>
        if hn && (idx =? 0) then RRet VNone
        else let i := idx - (if hn then 1 else 0) in
             bind (pick (fun c => py_read c) RFail cs i) (fun v => RRet (VCase i v)))
  | TVec e => rd_var (fun n => bind (rep (N.to_nat n) (py_read e)) (fun xs => RRet (VSeq xs)))
  | TFixVec n e => bind (rep (N.to_nat n) (py_read e)) (fun xs => RRet (VSeq xs))
  | TArr rank e =>
      bind (rep (N.to_nat rank) (rd_var (fun d => RRet d))) (fun sh =>
        bind (read_data e (py_read e) (prodN sh)) (fun xs => RRet (VArr sh xs)))
  | TFixArr dims e => bind (read_data e (py_read e) (prodN dims)) (fun xs => RRet (VArr dims xs))
  | TDynArr e =>
      rd_var (fun rank =>
        bind (rep (N.to_nat rank) (rd_var (fun d => RRet d))) (fun sh =>
          bind (read_data e (py_read e) (prodN sh)) (fun xs => RRet (VArr sh xs))))
  | TMap k e =>
      rd_var (fun n =>
        bind (rep (N.to_nat n) (bind (py_read k) (fun a => bind (py_read e) (fun b => RRet (a, b)))))
             (fun kvs => RRet (VMapv kvs)))
  | TRec fs => bind (read_fields py_read fs) (fun xs => RRet (VSeq xs))
  end.

(* a stream step: `while (i := read_unsigned_varint()) > 0: for _ in range(i): yield read(...)`; the fuel bounds the number of
   blocks (every block costs at least one byte of input) and is not part of the observable behaviour *)
Fixpoint py_read_stream (fuel : nat) (t : ty) : rprog (list val) :=
  match fuel with
  | O => RFail
  | S f => rd_var (fun n => if n =? 0 then RRet []
                            else bind (rep (N.to_nat n) (py_read t)) (fun xs =>
                                 bind (py_read_stream f t) (fun ys => RRet (xs ++ ys))))
  end.

(* BinaryProtocolReader.__init__: magic bytes, format version, embedded schema compared with the reader's own *)
Definition py_read_header (expected : list N) : rprog unit :=
  rd_bytes 5 (fun m =>
    if negb (list_eq_N m magic) then RFail                                   (* RuntimeError("Invalid magic bytes") *)
    else rd_fixed 4 (fun ver =>
      if negb (ver =? format_version) then RFail                             (* RuntimeError("Invalid binary format version") *)
      else rd_var (fun n => rd_bytes n (fun s =>
        if list_eq_N s expected then RRet tt else RFail))))                  (* RuntimeError("Invalid schema") *).

(* ---------- a whole protocol ---------- *)
Inductive presult := PRVal (v : val) | PRItems (xs : list val).

(* the steps in order; [fuel] bounds the number of blocks of each stream step *)
Fixpoint py_read_steps (fuel : nat) (steps : list step) : rprog (list presult) :=
  match steps with
  | [] => RRet []
  | SValue t :: r => bind (py_read t) (fun v => bind (py_read_steps fuel r) (fun rs => RRet (PRVal v :: rs)))
  | SStream t :: r => bind (py_read_stream fuel t) (fun xs => bind (py_read_steps fuel r) (fun rs => RRet (PRItems xs :: rs)))
  end.

Definition py_read_protocol (fuel : nat) (schema : list N) (steps : list step) : rprog (list presult) :=
  bind (py_read_header schema) (fun _ => py_read_steps fuel steps).
