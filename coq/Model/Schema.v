(* The protocol schema (tooling/pkg/dsl/protocolschema.go:GetProtocolSchema) and the encoding a schema prescribes.

   An environment is a list of definitions (qualified names).  The schema of a protocol is the protocol without comments
   plus the definitions reachable from its steps, without comments, computed fields and the enum/flags distinction,
   sorted by qualified name.  [resolve] expands a type of the schema language to the structural type (Model.Binary.ty)
   whose encoding Model.Binary defines.  Nesting of definitions is followed to depth [fuel] by both [vis] and [resolve];
   exhaustion yields None / is excluded by the theorems. *)
From Coq Require Import List NArith ZArith Bool String Ascii.
From YV Require Import Base.Wire Model.Binary Model.Json.
Import ListNotations.
Close Scope string_scope.
Open Scope N_scope.

(* ---------- the type language of model.json / the schema ---------- *)
Inductive sty :=
| SRef (name : str) (args : list sty)                      (* primitive, type parameter or (qualified) named type *)
| SCases (cases : list (str * option sty))                 (* several cases: (tag, type); None is null *)
| SVec (len : option N) (e : sty)
| SArr (dims : option (list (option str * option N))) (e : sty)
| SMap (k v : sty).

Inductive sbody :=
| BRecord (fields : list (str * sty))
| BEnum (base : option sty) (values : list (str * Z))
| BAlias (t : sty).

Record sdef := { d_name : str; d_params : list str; d_body : sbody }.

(* a definition as written: what the schema keeps, and what it strips *)
Record fdef := { f_def : sdef; f_comments : list str; f_computed : list str; f_flags : bool }.

Definition sstep := (str * bool * sty)%type.                (* name, is a stream, type *)
Record sproto := { p_name : str; p_steps : list sstep }.
Record fproto := { fp_proto : sproto; fp_comments : list str }.

Definition schema := (sproto * list sdef)%type.

(* ---------- lookup, order on names ---------- *)
Fixpoint lookup (defs : list sdef) (n : str) : option sdef :=
  match defs with
  | [] => None
  | d :: r => if str_eqb (d_name d) n then Some d else lookup r n
  end.

Fixpoint str_cmp (a b : str) : comparison :=
  match a, b with
  | [], [] => Eq
  | [], _ :: _ => Lt
  | _ :: _, [] => Gt
  | x :: ar, y :: br => match x ?= y with Eq => str_cmp ar br | c => c end
  end.

Definition name_leb (a b : sdef) : bool :=
  match str_cmp (d_name a) (d_name b) with Gt => false | _ => true end.

Fixpoint insert (x : sdef) (l : list sdef) : list sdef :=
  match l with
  | [] => [x]
  | y :: r => if name_leb x y then x :: l else y :: insert x r
  end.

Fixpoint isort (l : list sdef) : list sdef :=
  match l with [] => [] | x :: r => insert x (isort r) end.

Definition mem_str (n : str) (l : list str) : bool := existsb (str_eqb n) l.

(* ---------- the definitions a type depends on ---------- *)
Definition body_types (b : sbody) : list sty :=
  match b with
  | BRecord fields => map snd fields
  | BEnum (Some t) _ => [t]
  | BEnum None _ => []
  | BAlias t => [t]
  end.

(* names met while following the structure of a type and the definitions it refers to, to depth [fuel] - exactly the
   look-ups [resolve] performs with the same fuel *)
Fixpoint vis (fuel : nat) (defs : list sdef) (t : sty) : list str :=
  match fuel with
  | O => []
  | S f =>
      match t with
      | SRef name args =>
          name :: flat_map (vis f defs) args ++
          match lookup defs name with
          | Some d => flat_map (vis f defs) (body_types (d_body d))
          | None => []
          end
      | SCases cases => flat_map (fun c => match snd c with Some x => vis f defs x | None => [] end) cases
      | SVec _ e => vis f defs e
      | SArr _ e => vis f defs e
      | SMap k v => vis f defs k ++ vis f defs v
      end
  end.

Definition reach (fuel : nat) (defs : list sdef) (p : sproto) : list str :=
  flat_map (fun s => vis fuel defs (snd s)) (p_steps p).

Definition schema_of (fuel : nat) (env : list fdef) (p : fproto) : schema :=
  let defs := map f_def env in
  let r := reach fuel defs (fp_proto p) in
  (fp_proto p, isort (filter (fun d => mem_str (d_name d) r) defs)).

(* ---------- the encoding a type prescribes ---------- *)
Definition bytes_of (s : String.string) : str :=
  map (fun a => N.of_nat (Ascii.nat_of_ascii a)) (String.list_ascii_of_string s).

Definition prim_table : list (str * prim) :=
  map (fun np => (bytes_of (fst np), snd np))
      [("bool", PBool); ("int8", PInt8); ("uint8", PUint8); ("int16", PInt16); ("uint16", PUint16);
       ("int32", PInt32); ("uint32", PUint32); ("int64", PInt64); ("uint64", PUint64); ("size", PSize);
       ("float32", PFloat32); ("float64", PFloat64); ("complexfloat32", PCFloat32); ("complexfloat64", PCFloat64);
       ("string", PString); ("date", PDate); ("time", PTime); ("datetime", PDateTime)]%string.

Fixpoint assoc {A} (l : list (str * A)) (n : str) : option A :=
  match l with
  | [] => None
  | (k, v) :: r => if str_eqb k n then Some v else assoc r n
  end.

Fixpoint all_some {A} (l : list (option A)) : option (list A) :=
  match l with
  | [] => Some []
  | Some x :: r => match all_some r with Some xs => Some (x :: xs) | None => None end
  | None :: _ => None
  end.

Fixpoint zip {A B} (a : list A) (b : list B) : list (A * B) :=
  match a, b with x :: ar, y :: br => (x, y) :: zip ar br | _, _ => [] end.

Definition dims_ty (dims : option (list (option str * option N))) (e : ty) : ty :=
  match dims with
  | None => TDynArr e
  | Some ds =>
      match all_some (map snd ds) with
      | Some lens => match lens with [] => TArr 0 e | _ => TFixArr lens e end
      | None => TArr (N.of_nat (length ds)) e
      end
  end.

Definition enum_base (r : option ty) : option ty :=
  match r with
  | Some (TPrim p) => Some (TEnum p)
  | _ => None
  end.

Fixpoint resolve (fuel : nat) (defs : list sdef) (sigma : list (str * ty)) (t : sty) : option ty :=
  match fuel with
  | O => None
  | S f =>
      match t with
      | SRef name args =>
          match all_some (map (resolve f defs sigma) args) with
          | None => None
          | Some targs =>
              match assoc sigma name with
              | Some x => Some x                                    (* a type parameter *)
              | None =>
                  match assoc prim_table name with
                  | Some p => Some (TPrim p)
                  | None =>
                      match lookup defs name with
                      | Some d =>
                          let sigma' := zip (d_params d) targs in
                          match d_body d with
                          | BAlias b => resolve f defs sigma' b
                          | BRecord fields =>
                              match all_some (map (fun fl => resolve f defs sigma' (snd fl)) fields) with
                              | Some ts => Some (TRec ts)
                              | None => None
                              end
                          | BEnum None _ => Some (TEnum PInt32)
                          | BEnum (Some b) _ => enum_base (resolve f defs [] b)
                          end
                      | None => None
                      end
                  end
              end
          end
      | SCases cases =>
          let has_null := existsb (fun c => match snd c with None => true | _ => false end) cases in
          match all_some (flat_map (fun c => match snd c with Some x => [resolve f defs sigma x] | None => [] end) cases) with
          | Some [one] => if has_null then Some (TOpt one) else Some (TUnion false [one])
          | Some ts => Some (TUnion has_null ts)
          | None => None
          end
      | SVec None e => match resolve f defs sigma e with Some x => Some (TVec x) | None => None end
      | SVec (Some n) e => match resolve f defs sigma e with Some x => Some (TFixVec n x) | None => None end
      | SArr dims e => match resolve f defs sigma e with Some x => Some (dims_ty dims x) | None => None end
      | SMap k v => match resolve f defs sigma k, resolve f defs sigma v with Some a, Some b => Some (TMap a b) | _, _ => None end
      end
  end.

(* the structural type of every step: what Model.Binary.enc_protocol is applied to *)
Definition wire_of (fuel : nat) (defs : list sdef) (p : sproto) : list (bool * option ty) :=
  map (fun s => (snd (fst s), resolve fuel defs [] (snd s))) (p_steps p).

Definition wire (fuel : nat) (env : list fdef) (p : fproto) : list (bool * option ty) :=
  wire_of fuel (map f_def env) (fp_proto p).

Definition env_ok (env : list fdef) : bool := nodup_str (map (fun d => d_name (f_def d)) env).
