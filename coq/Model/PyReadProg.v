(* Reader programs: a typed reader is a program that issues read operations on a coded input stream and continues with the
   value each returns.  One program text is run both against the abstract byte-list reader ([arun_p]) and against the
   buffered machine of Model/CodedPy.v ([mrun_p]); Proofs/PyReadProofs.v shows the two agree for every buffer size, so any
   property proved of a program over byte lists holds of it over the buffered stream. *)
From Coq Require Import List NArith ZArith Bool.
From YV Require Import Base.Wire Model.CodedCpp Model.CodedPy.
Import ListNotations.
Open Scope N_scope.

Inductive rprog (A : Type) :=
| RRet (a : A)
| RFail                                   (* the data is not an encoding (Python raises) *)
| ROp (op : pop) (k : rval -> rprog A).
Arguments RRet {A} a.
Arguments RFail {A}.
Arguments ROp {A} op k.

Fixpoint bind {A B} (p : rprog A) (f : A -> rprog B) : rprog B :=
  match p with
  | RRet a => f a
  | RFail => RFail
  | ROp op k => ROp op (fun v => bind (k v) f)
  end.

Fixpoint rep {A} (n : nat) (p : rprog A) : rprog (list A) :=
  match n with
  | O => RRet []
  | S n' => bind p (fun a => bind (rep n' p) (fun l => RRet (a :: l)))
  end.

(* ---------- over byte lists ---------- *)
Inductive pares (A : Type) := PVal (a : A) (rest : list N) | PEnd | PBad.
Arguments PVal {A} a rest.
Arguments PEnd {A}.
Arguments PBad {A}.

Fixpoint arun_p {A} (p : rprog A) (l : list N) : pares A :=
  match p with
  | RRet a => PVal a l
  | RFail => PBad
  | ROp op k => match pastep l op with
                | Some (v, r) => arun_p (k v) r
                | None => PEnd
                end
  end.

(* ---------- over the buffered machine ---------- *)
Inductive mres (A : Type) := MVal (a : A) (s : pin) | MEnd (f : pyres unit) | MBad.
Arguments MVal {A} a s.
Arguments MEnd {A} f.
Arguments MBad {A}.

Fixpoint mrun_p {A} (bufsize : nat) (p : rprog A) (s : pin) : mres A :=
  match p with
  | RRet a => MVal a s
  | RFail => MBad
  | ROp op k => match pstep bufsize s op with
                | (PyOk v, s1) => mrun_p bufsize (k v) s1
                | (PyEof, _) => MEnd PyEof
                | (PyFault f, _) => MEnd (PyFault f)
                end
  end.

(* every fixed-size read of the program fits the buffer *)
Fixpoint prog_ok {A} (bufsize : nat) (p : rprog A) : Prop :=
  match p with
  | RRet _ | RFail => True
  | ROp op k => match op with PFixed n => (n <= bufsize)%nat | _ => True end /\ forall v, prog_ok bufsize (k v)
  end.
