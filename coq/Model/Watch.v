(* `yardl generate --watch` (dedupLoop): contents change, a debounce timer is re-armed by every event, its expiry starts a
   regeneration on its own goroutine; a regeneration reads the package when it starts and writes the output when it ends.
   [contents] counts the edits so far; [disk] is the contents version the files on disk were generated from. *)
From Coq Require Import List Arith Bool.
From YV Require Import Gen.Watch.
Import ListNotations.

Inductive wevent :=
| Edit                 (* a file is saved: an fsnotify event re-arms the timer *)
| Fire                 (* the timer expires: a regeneration is started (or queues on the mutex) *)
| Finish (i : nat).    (* the i-th regeneration in flight completes and its output is on disk *)

Record wstate := { contents : nat; armed : bool; running : list nat; waiting : nat; disk : nat }.

Definition winit : wstate := {| contents := 0; armed := false; running := []; waiting := 0; disk := 0 |}.

Fixpoint remove_nth {A} (i : nat) (l : list A) : list A :=
  match l, i with
  | [], _ => []
  | _ :: r, O => r
  | x :: r, S j => x :: remove_nth j r
  end.

(* regenerations overlap freely *)
Definition step_free (s : wstate) (e : wevent) : option wstate :=
  match e with
  | Edit => Some {| contents := S (contents s); armed := true; running := running s; waiting := waiting s; disk := disk s |}
  | Fire => if armed s
            then Some {| contents := contents s; armed := false; running := running s ++ [contents s]; waiting := waiting s; disk := disk s |}
            else None
  | Finish i => match nth_error (running s) i with
                | Some snap => Some {| contents := contents s; armed := armed s; running := remove_nth i (running s);
                                       waiting := waiting s; disk := snap |}
                | None => None
                end
  end.

(* one mutex around the whole regeneration: at most one runs, the others wait and read the package when they get the mutex *)
Definition step_serial (s : wstate) (e : wevent) : option wstate :=
  match e with
  | Edit => Some {| contents := S (contents s); armed := true; running := running s; waiting := waiting s; disk := disk s |}
  | Fire => if armed s
            then match running s with
                 | [] => Some {| contents := contents s; armed := false; running := [contents s]; waiting := waiting s; disk := disk s |}
                 | _ => Some {| contents := contents s; armed := false; running := running s; waiting := S (waiting s); disk := disk s |}
                 end
            else None
  | Finish i => match i, running s with
                | O, [snap] =>
                    match waiting s with
                    | O => Some {| contents := contents s; armed := armed s; running := []; waiting := 0; disk := snap |}
                    | S w => Some {| contents := contents s; armed := armed s; running := [contents s]; waiting := w; disk := snap |}
                    end
                | _, _ => None
                end
  end.

(* the model of the CURRENT sources *)
Definition wstep : wstate -> wevent -> option wstate := if watch_serialized then step_serial else step_free.

Fixpoint wrun (step : wstate -> wevent -> option wstate) (s : wstate) (es : list wevent) : option wstate :=
  match es with
  | [] => Some s
  | e :: r => match step s e with Some s' => wrun step s' r | None => None end
  end.

Definition quiescent (s : wstate) : bool :=
  negb (armed s) && match running s with [] => true | _ => false end && (waiting s =? 0).
