(* The typed layer of the generated Python binary writers as a program over the coded output stream: the sequence of
   CodedOutputStream calls the serializer classes of _binary.py (StructSerializer, Int16Serializer ..., StringSerializer,
   EnumSerializer, OptionalSerializer, UnionSerializer, VectorSerializer, FixedVectorSerializer, MapSerializer,
   RecordSerializer, the three NDArray serializers with their write_bytes_directly fast path) make for a value of a resolved
   type.  Executable definitions only; the tie (harness/checks/c01.py, trace layer) records the calls made on a spying
   CodedOutputStream while generated code writes values and compares them with [py_wops]. *)
From Coq Require Import List NArith ZArith Bool.
From YV Require Import Base.Wire Model.Binary Model.CodedCpp Model.CodedPy.
Import ListNotations.
Open Scope N_scope.

Definition py_int_ops (p : prim) (z : Z) : list pwop :=
  match int_width p with
  | Some (s, w) =>
      if w <=? 8 then [PWFixed 1 (to_unsigned 8 z)]          (* struct "<?", "<b", "<B" *)
      else if s then [PWVar (zz_enc z)]                       (* write_signed_varint *)
      else [PWVar (Z.to_N z)]                                 (* write_unsigned_varint *)
  | None => []
  end.

Definition py_prim_ops (p : prim) (v : val) : list pwop :=
  match p, v with
  | PFloat32, VBits n => [PWFixed 4 n]
  | PFloat64, VBits n => [PWFixed 8 n]
  | PCFloat32, VCplx re im => [PWFixed 8 (re + 2 ^ 32 * im)]       (* one struct "<ff" *)
  | PCFloat64, VCplx re im => [PWFixed 16 (re + 2 ^ 64 * im)]      (* one struct "<dd" *)
  | PString, VStr b => [PWVar (N.of_nat (length b)); PWBytes b]
  | _, VInt z => py_int_ops p z
  | _, _ => []
  end.

(* is_trivially_serializable() of the serializer classes *)
Fixpoint py_ts (t : ty) : bool :=
  match t with
  | TPrim (PInt8 | PUint8 | PFloat32 | PFloat64 | PCFloat32 | PCFloat64) => true
  | TEnum (PInt8 | PUint8) => true
  | TFixVec _ e => py_ts e
  | TFixArr _ e => py_ts e
  | TRec fs => forallb py_ts fs
  | _ => false
  end.

(* numpy structured dtypes: itemsize with align=True (C-struct rules; a zero-length subarray has size 0) and packed *)
Definition np_fields (f : ty -> option (N * N * N)) : list ty -> N -> N -> N -> option (N * N * N) :=
  fix go (fs : list ty) (off al packed : N) : option (N * N * N) :=
    match fs with
    | [] => Some (off, al, packed)
    | t :: r => match f t with
                | Some (s, a, p) => go r (((off + a - 1) / a) * a + s) (N.max al a) (packed + p)
                | None => None
                end
    end.

(* (aligned itemsize, alignment, packed itemsize) *)
Fixpoint np_layout (t : ty) : option (N * N * N) :=
  match t with
  | TPrim (PBool | PInt8 | PUint8) | TEnum (PInt8 | PUint8) => Some (1, 1, 1)
  | TPrim PFloat32 => Some (4, 4, 4)
  | TPrim PFloat64 => Some (8, 8, 8)
  | TPrim PCFloat32 => Some (8, 4, 8)
  | TPrim PCFloat64 => Some (16, 8, 16)
  | TFixVec n e => match np_layout e with Some (s, a, p) => Some (n * s, a, n * p) | None => None end
  | TFixArr dims e => match np_layout e with Some (s, a, p) => Some (prodN dims * s, a, prodN dims * p) | None => None end
  | TRec fs =>
      match np_fields np_layout fs 0 1 0 with
      | Some (e, al, p) => Some (((e + al - 1) / al) * al, al, p)
      | None => None
      end
  | _ => None
  end.

(* the data of an array goes out with ONE write_bytes_directly: trivially serializable elements whose dtype has no padding *)
Definition py_fast (e : ty) : bool :=
  py_ts e && match np_layout e with Some (s, _, p) => s =? p | None => false end.

Definition ops_fields (f : ty -> val -> list pwop) : list ty -> list val -> list pwop :=
  fix go (fs : list ty) (xs : list val) : list pwop :=
    match fs, xs with
    | t :: fr, x :: xr => f t x ++ go fr xr
    | _, _ => []
    end.

Fixpoint py_wops (t : ty) (v : val) {struct t} : list pwop :=
  match t, v with
  | TPrim p, _ => py_prim_ops p v
  | TEnum b, VInt z => py_int_ops b z
  | TOpt _, VNone => [PWByte 0]
  | TOpt e, VSome x => PWByte 1 :: py_wops e x
  | TUnion hn cs, VNone => [PWByte 0]
  | TUnion hn cs, VCase i x => PWByte (i + if hn then 1 else 0) :: pick (fun c => py_wops c x) [] cs i
  | TVec e, VSeq xs => PWVar (N.of_nat (length xs)) :: concat (map (py_wops e) xs)
  | TFixVec n e, VSeq xs => concat (map (py_wops e) xs)
  | TArr rank e, VArr sh xs =>
      map PWVar sh ++ (if py_fast e then [PWDirect (concat (map (enc_py e) xs))] else concat (map (py_wops e) xs))
  | TFixArr dims e, VArr sh xs =>
      if py_fast e then [PWDirect (concat (map (enc_py e) xs))] else concat (map (py_wops e) xs)
  | TDynArr e, VArr sh xs =>
      PWVar (N.of_nat (length sh)) :: map PWVar sh ++
      (if py_fast e then [PWDirect (concat (map (enc_py e) xs))] else concat (map (py_wops e) xs))
  | TMap k e, VMapv kvs =>
      PWVar (N.of_nat (length kvs)) :: concat (map (fun kv => py_wops k (fst kv) ++ py_wops e (snd kv)) kvs)
  | TRec fs, VSeq xs => ops_fields py_wops fs xs
  | _, _ => []
  end.

(* one stream step: a non-empty list is one block, anything else one block per item; the end marker follows *)
Inductive py_batch := BList (items : list val) | BIter (items : list val).

Definition batch_ops (t : ty) (b : py_batch) : list pwop :=
  match b with
  | BList (x :: r) => PWVar (N.of_nat (length (x :: r))) :: concat (map (py_wops t) (x :: r))
  | BList [] => []
  | BIter xs => concat (map (fun x => PWByte 1 :: py_wops t x) xs)
  end.

Definition py_stream_ops (t : ty) (batches : list py_batch) : list pwop :=
  concat (map (batch_ops t) batches) ++ [PWByte 0].

(* ---------- a whole protocol ---------- *)
(* BinaryProtocolWriter.__init__: write_bytes(MAGIC), write_fixed_int32(version), string_serializer.write(schema) *)
Definition py_header_ops (schema : list N) : list pwop :=
  [PWBytes magic; PWFixed 4 format_version; PWVar (N.of_nat (length schema)); PWBytes schema].

Inductive pstep := PSVal (t : ty) (v : val) | PSStream (t : ty) (bs : list py_batch).

Definition pstep_ops (s : pstep) : list pwop :=
  match s with
  | PSVal t v => py_wops t v
  | PSStream t bs => py_stream_ops t bs
  end.

Definition py_protocol_ops (schema : list N) (steps : list pstep) : list pwop :=
  py_header_ops schema ++ concat (map pstep_ops steps).
