(* Evaluation glue for the protocol state machine correspondence. *)
From Coq Require Import List NArith Bool Arith.
From YV Require Import Model.ProtoSM.
Import ListNotations.

Inductive smcase :=
| CppW (sh : shape) (cs : list wcall) (accepted : bool)
| CppR (sh : shape) (cs : list rcall) (accepted : bool)
| MatW (sh : shape) (cs : list wcall) (accepted : bool)
| MatR (sh : shape) (cs : list mcall) (accepted : bool)
| PyW (sh : shape) (cs : list pwcall) (accepted : bool) (ends : nat)
| PyR (sh : shape) (cs : list prcall) (accepted : bool).

Definition smcase_ok (c : smcase) : bool :=
  match c with
  | CppW sh cs a => Bool.eqb (cppw_accepts sh cs) a
  | CppR sh cs a => Bool.eqb (cppr_accepts sh cs) a
  | MatW sh cs a => Bool.eqb (matw_accepts sh cs) a
  | MatR sh cs a => Bool.eqb (matr_accepts sh cs) a
  | PyW sh cs a e => match pyw_run sh cs with
                     | Some (_, e') => a && Nat.eqb e e'
                     | None => negb a
                     end
  | PyR sh cs a => Bool.eqb (pyr_accepts sh cs) a
  end.

Fixpoint sm_mismatches (i : nat) (l : list smcase) : list nat :=
  match l with
  | [] => []
  | c :: r => if smcase_ok c then sm_mismatches (S i) r else i :: sm_mismatches (S i) r
  end.

(* the guard/assignment tables of the MATLAB base classes, as emitted text is parsed into:
   (kind, step, guard state, state after)   kind: 0 write value, 1 write item, 2 end stream, 3 close,
                                                  4 read value, 5 has_x (state after = when exhausted), 6 read item *)
Definition mat_writer_table (sh : shape) : list (nat * nat * nat * nat) :=
  concat (map (fun i => if is_stream sh i then [(1, i, i, i); (2, i, i, i + 1)] else [(0, i, i, i + 1)]) (seq 0 (length sh)))
  ++ [(3, 0, length sh, length sh)].
Definition mat_reader_table (sh : shape) : list (nat * nat * nat * nat) :=
  concat (map (fun i => if is_stream sh i then [(5, i, i, i + 1); (6, i, i, i)] else [(4, i, i, i + 1)]) (seq 0 (length sh)))
  ++ [(3, 0, length sh, length sh)].

Fixpoint table_eqb (a b : list (nat * nat * nat * nat)) : bool :=
  match a, b with
  | [], [] => true
  | (k1, s1, g1, n1) :: a', (k2, s2, g2, n2) :: b' =>
      Nat.eqb k1 k2 && Nat.eqb s1 s2 && Nat.eqb g1 g2 && Nat.eqb n1 n2 && table_eqb a' b'
  | _, _ => false
  end.
