(* Evaluation glue for the trace tie of Model/PyTyped.v: the calls a spying CodedOutputStream recorded while generated Python
   wrote the steps of a protocol, against [py_wops] / [py_stream_ops]. *)
From Coq Require Import List NArith ZArith Bool.
From YV Require Import Base.Wire Model.Binary Model.CodedCpp Model.CodedPy Model.CodedCases Model.PyTyped.
Import ListNotations.
Open Scope N_scope.

Inductive pstep := PSVal (t : ty) (v : val) | PSStream (t : ty) (bs : list py_batch).

Definition pstep_ops (s : pstep) : list pwop :=
  match s with
  | PSVal t v => py_wops t v
  | PSStream t bs => py_stream_ops t bs
  end.

Definition pwop_eqb (a b : pwop) : bool :=
  match a, b with
  | PWEnsure x, PWEnsure y => Nat.eqb x y
  | PWByteNC x, PWByteNC y => x =? y
  | PWByte x, PWByte y => x =? y
  | PWVar x, PWVar y => x =? y
  | PWFixed k x, PWFixed j y => Nat.eqb k j && (x =? y)
  | PWBytes x, PWBytes y => list_eqb N.eqb x y
  | PWDirect x, PWDirect y => list_eqb N.eqb x y
  | PWFlush, PWFlush => true
  | _, _ => false
  end.

(* 0: identical; k+1: the traces part at position k (or one is a strict prefix of the other of length k) *)
Fixpoint first_diff (i : N) (a b : list pwop) : N :=
  match a, b with
  | [], [] => 0
  | x :: a', y :: b' => if pwop_eqb x y then first_diff (i + 1) a' b' else i + 1
  | _, _ => i + 1
  end.

(* the steps written, the calls observed *)
Definition trcase := (list pstep * list pwop)%type.
Definition trcase_status (c : trcase) : N :=
  let '(steps, obs) := c in first_diff 0 (concat (map pstep_ops steps)) obs.
