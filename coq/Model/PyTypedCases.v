(* Evaluation glue for the trace tie of Model/PyTyped.v: the calls a spying CodedOutputStream recorded while generated Python
   wrote the steps of a protocol, against [py_wops] / [py_stream_ops]. *)
From Coq Require Import List NArith ZArith Bool.
From YV Require Import Base.Wire Model.Binary Model.CodedCpp Model.CodedPy Model.CodedCases Model.PyTyped.
Import ListNotations.
Open Scope N_scope.

Definition pwop_eqb (a b : pwop) : bool :=
  match a, b with
  | PWEnsure x, PWEnsure y => Nat.eqb x y
  | PWByteNC x, PWByteNC y => x =? y
  | PWByte x, PWByte y => x =? y
  | PWVar x, PWVar y => x =? y
  | PWFixed k x, PWFixed j y => Nat.eqb k j && (x =? y)
  | PWBytes x, PWBytes y => list_eqb N.eqb x y
  | PWDirect x, PWDirect y => list_eqb N.eqb x y
  | PWFlush, PWFlush => true
  | _, _ => false
  end.

(* 0: identical; k+1: the traces part at position k (or one is a strict prefix of the other of length k) *)
Fixpoint first_diff (i : N) (a b : list pwop) : N :=
  match a, b with
  | [], [] => 0
  | x :: a', y :: b' => if pwop_eqb x y then first_diff (i + 1) a' b' else i + 1
  | _, _ => i + 1
  end.

(* the schema, the steps written, the calls observed (the constructor's header writes included) *)
Definition trcase := (list N * list pstep * list pwop)%type.
Definition trcase_status (c : trcase) : N :=
  let '(schema, steps, obs) := c in first_diff 0 (py_protocol_ops schema steps) obs.

(* ---- the reader side: the calls a spying CodedInputStream recorded (operation, what it returned) against the calls the
   typed reader program issues on the same bytes ---- *)
From YV Require Import Model.PyReadProg Model.PyTypedRead.

Fixpoint rtrace {A} (p : rprog A) (l : list N) : list (pop * rval) * option (list N) :=
  match p with
  | RRet _ => ([], Some l)
  | RFail => ([], None)
  | ROp op k => match pastep l op with
                | Some (v, r) => let '(tr, rest) := rtrace (k v) r in ((op, v) :: tr, rest)
                | None => ([], None)
                end
  end.

(* a stream step is read with fuel = number of blocks + 1 *)
Inductive rstep := RSVal (t : ty) | RSStream (t : ty) (sizes : list nat).

Fixpoint rtrace_steps (steps : list rstep) (l : list N) : list (pop * rval) :=
  match steps with
  | [] => []
  | s :: r =>
      let '(tr, rest) := match s with
                         | RSVal t => rtrace (py_read t) l
                         | RSStream t sizes => rtrace (py_read_stream (S (length sizes)) t) l
                         end in
      match rest with
      | Some l' => tr ++ rtrace_steps r l'
      | None => tr
      end
  end.

Definition pop_eqb (a b : pop) : bool :=
  match a, b with
  | PByte, PByte | PVar, PVar => true
  | PFixed x, PFixed y => Nat.eqb x y
  | PBytes x, PBytes y => x =? y
  | _, _ => false
  end.

Fixpoint first_rdiff (i : N) (a b : list (pop * rval)) : N :=
  match a, b with
  | [], [] => 0
  | (o1, v1) :: a', (o2, v2) :: b' => if pop_eqb o1 o2 && rval_eqb v1 v2 then first_rdiff (i + 1) a' b' else i + 1
  | _, _ => i + 1
  end.

(* the reader's own schema, the steps, the whole stream, the calls observed (the constructor's header reads included) *)
Definition rtcase := (list N * list rstep * list N * list (pop * rval))%type.
Definition rtcase_status (c : rtcase) : N :=
  let '(schema, steps, stream, obs) := c in
  let '(htr, rest) := rtrace (py_read_header schema) stream in
  first_rdiff 0 (htr ++ match rest with Some body => rtrace_steps steps body | None => [] end) obs.
