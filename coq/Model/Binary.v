(* L2/L3 — resolved types, values, and the compact binary codec as the implementations write it
   (serializers.h / _binary.py): what docs/reference/binary.md describes, with the two places
   where every backend deviates from the document made explicit ([enc_doc] below).
   Executable definitions only. *)
From Coq Require Import List NArith ZArith Bool.
From YV Require Import Base.Wire.
Import ListNotations.
Open Scope N_scope.

Inductive prim :=
| PBool | PInt8 | PUint8 | PInt16 | PUint16 | PInt32 | PUint32 | PInt64 | PUint64 | PSize
| PFloat32 | PFloat64 | PCFloat32 | PCFloat64 | PString | PDate | PTime | PDateTime.

(* Resolved (aliases inlined, generics instantiated) types. *)
Inductive ty :=
| TPrim (p : prim)
| TEnum (base : prim)                       (* enums and flags travel as their base integer *)
| TOpt (t : ty)                             (* [null, T] *)
| TUnion (has_null : bool) (cases : list ty) (* cases excludes the null slot *)
| TVec (t : ty)
| TFixVec (n : N) (t : ty)
| TArr (rank : N) (t : ty)                  (* known number of dimensions *)
| TFixArr (dims : list N) (t : ty)
| TDynArr (t : ty)
| TMap (k v : ty)
| TRec (fields : list ty).

Inductive val :=
| VInt (z : Z)                    (* bool (0/1), all integers, size, enum/flags, date/time/datetime *)
| VBits (n : N)                   (* float32 / float64 as IEEE bit pattern *)
| VCplx (re im : N)
| VStr (bytes : list N)           (* UTF-8 bytes *)
| VNone                           (* absent optional / the null case of a union *)
| VSome (v : val)
| VCase (i : N) (v : val)         (* i-th non-null case *)
| VSeq (vs : list val)            (* vectors and records *)
| VArr (shape : list N) (vs : list val)   (* row-major data *)
| VMapv (kvs : list (val * val)).

(* ---------- integer-like primitives ---------- *)

Definition int_width (p : prim) : option (bool * N) :=   (* signed?, bits *)
  match p with
  | PBool => Some (false, 1) | PInt8 => Some (true, 8) | PUint8 => Some (false, 8)
  | PInt16 => Some (true, 16) | PUint16 => Some (false, 16)
  | PInt32 => Some (true, 32) | PUint32 => Some (false, 32)
  | PInt64 => Some (true, 64) | PUint64 => Some (false, 64) | PSize => Some (false, 64)
  | PDate => Some (true, 32) | PTime => Some (true, 64) | PDateTime => Some (true, 64)
  | _ => None
  end.

Definition int_ok (p : prim) (z : Z) : bool :=
  match int_width p with
  | Some (true, w) => in_range_s w z
  | Some (false, w) => in_range_u w z
  | None => false
  end.

(* the implementations: 8-bit integers and bool are ONE RAW BYTE, everything else varint *)
Definition enc_int (p : prim) (z : Z) : list N :=
  match int_width p with
  | Some (s, w) =>
      if w <=? 8 then [to_unsigned 8 z]
      else if s then venc (zz_enc z) else venc (Z.to_N z)
  | None => []
  end.

Definition dec_int (p : prim) (l : list N) : option (Z * list N) :=
  match int_width p with
  | Some (s, w) =>
      if w <=? 8 then
        match l with
        | b :: r => Some (if s then to_signed 8 b else Z.of_N b, r)
        | [] => None
        end
      else match vdec l with
           | Some (n, r) => Some (if s then zz_dec n else Z.of_N n, r)
           | None => None
           end
  | None => None
  end.

(* binary.md read literally: every integer is a (zig-zag) varint, also the 8-bit ones *)
Definition enc_int_doc (p : prim) (z : Z) : list N :=
  match int_width p with
  | Some (s, w) =>
      if w =? 1 then [to_unsigned 8 z]
      else if s then venc (zz_enc z) else venc (Z.to_N z)
  | None => []
  end.

(* ---------- helpers ---------- *)

Fixpoint prodN (l : list N) : N := match l with [] => 1 | x :: r => x * prodN r end.

Definition enc_prim (enc_i : prim -> Z -> list N) (p : prim) (v : val) : list N :=
  match p, v with
  | PFloat32, VBits n => le_enc 4 n
  | PFloat64, VBits n => le_enc 8 n
  | PCFloat32, VCplx re im => le_enc 4 re ++ le_enc 4 im
  | PCFloat64, VCplx re im => le_enc 8 re ++ le_enc 8 im
  | PString, VStr b => venc (N.of_nat (length b)) ++ b
  | _, VInt z => enc_i p z
  | _, _ => []
  end.

Definition prim_ok (p : prim) (v : val) : bool :=
  match p, v with
  | PFloat32, VBits n => n <? 2 ^ 32
  | PFloat64, VBits n => n <? 2 ^ 64
  | PCFloat32, VCplx re im => (re <? 2 ^ 32) && (im <? 2 ^ 32)
  | PCFloat64, VCplx re im => (re <? 2 ^ 64) && (im <? 2 ^ 64)
  | PString, VStr b => all_bytes b
  | (PFloat32 | PFloat64 | PCFloat32 | PCFloat64 | PString), _ => false
  | _, VInt z => int_ok p z
  | _, _ => false
  end.

Definition dec_prim (p : prim) (l : list N) : option (val * list N) :=
  match p with
  | PFloat32 => match take 4 l with Some (h, t) => Some (VBits (le_dec h), t) | None => None end
  | PFloat64 => match take 8 l with Some (h, t) => Some (VBits (le_dec h), t) | None => None end
  | PCFloat32 => match take 4 l with
                 | Some (h, t) => match take 4 t with
                                  | Some (h2, t2) => Some (VCplx (le_dec h) (le_dec h2), t2)
                                  | None => None end
                 | None => None end
  | PCFloat64 => match take 8 l with
                 | Some (h, t) => match take 8 t with
                                  | Some (h2, t2) => Some (VCplx (le_dec h) (le_dec h2), t2)
                                  | None => None end
                 | None => None end
  | PString => match vdec l with
               | Some (n, r) => match take n r with Some (h, t) => Some (VStr h, t) | None => None end
               | None => None end
  | _ => match dec_int p l with Some (z, r) => Some (VInt z, r) | None => None end
  end.

Fixpoint list_eq_N (a b : list N) : bool :=
  match a, b with
  | [], [] => true
  | x :: a', y :: b' => (x =? y) && list_eq_N a' b'
  | _, _ => false
  end.

(* Generic traversals over the children of a type.  They are Definitions whose body is a [fix],
   so that the recursive functions below may pass themselves in (the guard checker unfolds them). *)
Definition pick {A} (f : ty -> A) (d : A) : list ty -> N -> A :=
  fix go (cs : list ty) (i : N) : A :=
    match cs with
    | [] => d
    | c :: r => if i =? 0 then f c else go r (i - 1)
    end.

Definition all2 (f : ty -> val -> bool) : list ty -> list val -> bool :=
  fix go (fs : list ty) (xs : list val) : bool :=
    match fs, xs with
    | [], [] => true
    | t :: fr, x :: xr => f t x && go fr xr
    | _, _ => false
    end.

Definition enc_fields (f : ty -> val -> list N) : list ty -> list val -> list N :=
  fix go (fs : list ty) (xs : list val) : list N :=
    match fs, xs with
    | t :: fr, x :: xr => f t x ++ go fr xr
    | _, _ => []
    end.

Definition dec_fields (f : ty -> list N -> option (val * list N))
  : list ty -> list N -> option (list val * list N) :=
  fix go (fs : list ty) (l : list N) : option (list val * list N) :=
    match fs with
    | [] => Some ([], l)
    | t :: fr => match f t l with
                 | Some (v, r) => match go fr r with
                                  | Some (vs, r') => Some (v :: vs, r')
                                  | None => None end
                 | None => None end
    end.

(* ---------- typing (boolean, so hypotheses are decidable) ---------- *)

Fixpoint has_type (t : ty) (v : val) {struct t} : bool :=
  match t, v with
  | TPrim p, _ => prim_ok p v
  | TEnum b, VInt z => int_ok b z
  | TOpt _, VNone => true
  | TOpt e, VSome x => has_type e x
  | TUnion hn cs, VNone => hn
  | TUnion hn cs, VCase i x => pick (fun c => has_type c x) false cs i
  | TVec e, VSeq xs => forallb (has_type e) xs
  | TFixVec n e, VSeq xs => (N.of_nat (length xs) =? n) && forallb (has_type e) xs
  | TArr rank e, VArr sh xs =>
      (N.of_nat (length sh) =? rank) && (N.of_nat (length xs) =? prodN sh) && forallb (has_type e) xs
  | TFixArr dims e, VArr sh xs =>
      list_eq_N sh dims && (N.of_nat (length xs) =? prodN sh) && forallb (has_type e) xs
  | TDynArr e, VArr sh xs => (N.of_nat (length xs) =? prodN sh) && forallb (has_type e) xs
  | TMap k e, VMapv kvs => forallb (fun kv => has_type k (fst kv) && has_type e (snd kv)) kvs
  | TRec fs, VSeq xs => all2 has_type fs xs
  | _, _ => false
  end.

(* ---------- encoder ---------- *)

Section Enc.
Variable enc_i : prim -> Z -> list N.    (* how integers are written: implementation or document *)
Variable enc_idx : N -> list N.          (* how a union case index is written: varint (C++, doc) or one raw byte (Python) *)

Fixpoint enc_with (t : ty) (v : val) {struct t} : list N :=
  match t, v with
  | TPrim p, _ => enc_prim enc_i p v
  | TEnum b, VInt z => enc_i b z
  | TOpt _, VNone => [0]
  | TOpt e, VSome x => 1 :: enc_with e x
  | TUnion hn cs, VNone => enc_idx 0
  | TUnion hn cs, VCase i x =>
      enc_idx (i + if hn then 1 else 0) ++ pick (fun c => enc_with c x) [] cs i
  | TVec e, VSeq xs => venc (N.of_nat (length xs)) ++ concat (map (enc_with e) xs)
  | TFixVec n e, VSeq xs => concat (map (enc_with e) xs)
  | TArr rank e, VArr sh xs => concat (map venc sh) ++ concat (map (enc_with e) xs)
  | TFixArr dims e, VArr sh xs => concat (map (enc_with e) xs)
  | TDynArr e, VArr sh xs =>
      venc (N.of_nat (length sh)) ++ concat (map venc sh) ++ concat (map (enc_with e) xs)
  | TMap k e, VMapv kvs =>
      venc (N.of_nat (length kvs)) ++
      concat (map (fun kv => enc_with k (fst kv) ++ enc_with e (snd kv)) kvs)
  | TRec fs, VSeq xs => enc_fields enc_with fs xs
  | _, _ => []
  end.
End Enc.

Definition enc := enc_with enc_int venc.          (* what C++ (and the reference) writes *)
Definition enc_doc := enc_with enc_int_doc venc.  (* docs/reference/binary.md read literally *)
(* Python: UnionSerializer writes the case index with write_byte_no_check, i.e. ONE raw byte *)
Definition enc_py := enc_with enc_int (fun i => [i]).

(* ---------- decoder ---------- *)

(* n repetitions of a decoder *)
Fixpoint dec_n (d : list N -> option (val * list N)) (n : nat) (l : list N) : option (list val * list N) :=
  match n with
  | O => Some ([], l)
  | S n' => match d l with
            | Some (v, r) => match dec_n d n' r with
                             | Some (vs, r') => Some (v :: vs, r')
                             | None => None end
            | None => None end
  end.

Fixpoint dec_kv (dk dv : list N -> option (val * list N)) (n : nat) (l : list N)
  : option (list (val * val) * list N) :=
  match n with
  | O => Some ([], l)
  | S n' => match dk l with
            | Some (k, r) =>
                match dv r with
                | Some (v, r2) => match dec_kv dk dv n' r2 with
                                  | Some (kvs, r') => Some ((k, v) :: kvs, r')
                                  | None => None end
                | None => None end
            | None => None end
  end.

(* n varints *)
Fixpoint dec_dims (n : nat) (l : list N) : option (list N * list N) :=
  match n with
  | O => Some ([], l)
  | S n' => match vdec l with
            | Some (d, r) => match dec_dims n' r with
                             | Some (ds, r') => Some (d :: ds, r')
                             | None => None end
            | None => None end
  end.

Fixpoint dec (t : ty) (l : list N) {struct t} : option (val * list N) :=
  match t with
  | TPrim p => dec_prim p l
  | TEnum b => match dec_int b l with Some (z, r) => Some (VInt z, r) | None => None end
  | TOpt e =>
      match l with
      | [] => None
      | b :: r => if b =? 0 then Some (VNone, r)
                  else match dec e r with Some (v, r') => Some (VSome v, r') | None => None end
      end
  | TUnion hn cs =>
      match vdec l with
      | None => None
      | Some (idx, r) =>
          if hn && (idx =? 0) then Some (VNone, r)
          else
            let i := idx - (if hn then 1 else 0) in
            match pick (fun c => dec c r) None cs i with
            | Some (v, r') => Some (VCase i v, r')
            | None => None
            end
      end
  | TVec e =>
      match vdec l with
      | Some (n, r) => match dec_n (dec e) (N.to_nat n) r with
                       | Some (vs, r') => Some (VSeq vs, r') | None => None end
      | None => None
      end
  | TFixVec n e =>
      match dec_n (dec e) (N.to_nat n) l with
      | Some (vs, r') => Some (VSeq vs, r') | None => None end
  | TArr rank e =>
      match dec_dims (N.to_nat rank) l with
      | Some (sh, r) => match dec_n (dec e) (N.to_nat (prodN sh)) r with
                        | Some (vs, r') => Some (VArr sh vs, r') | None => None end
      | None => None
      end
  | TFixArr dims e =>
      match dec_n (dec e) (N.to_nat (prodN dims)) l with
      | Some (vs, r') => Some (VArr dims vs, r') | None => None end
  | TDynArr e =>
      match vdec l with
      | Some (rank, r0) =>
          match dec_dims (N.to_nat rank) r0 with
          | Some (sh, r) => match dec_n (dec e) (N.to_nat (prodN sh)) r with
                            | Some (vs, r') => Some (VArr sh vs, r') | None => None end
          | None => None
          end
      | None => None
      end
  | TMap k e =>
      match vdec l with
      | Some (n, r) => match dec_kv (dec k) (dec e) (N.to_nat n) r with
                       | Some (kvs, r') => Some (VMapv kvs, r') | None => None end
      | None => None
      end
  | TRec fs =>
      match dec_fields dec fs l with
      | Some (vs, r') => Some (VSeq vs, r')
      | None => None
      end
  end.

(* ---------- protocols: header, steps, streams as blocks ---------- *)

Inductive step := SValue (t : ty) | SStream (t : ty).
Definition protocol := list step.

(* what is handed to the writer for one step: a value, or the stream items grouped into the
   batches of the successive write calls (each batch becomes one block) *)
Inductive swrite := WVal (v : val) | WItems (blocks : list (list val)).
(* what the reader yields for one step *)
Inductive sread := RVal (v : val) | RItems (items : list val).

Definition magic : list N := [121; 97; 114; 100; 108].   (* "yardl" *)
Definition format_version : N := 1.

Definition enc_header (schema : list N) : list N :=
  magic ++ le_enc 4 format_version ++ venc (N.of_nat (length schema)) ++ schema.

(* both writers skip an empty batch: an empty block would be the end-of-stream marker *)
Definition nonempty (b : list val) : bool := match b with [] => false | _ => true end.

Definition enc_block (t : ty) (b : list val) : list N :=
  venc (N.of_nat (length b)) ++ concat (map (enc t) b).

Definition enc_step (s : step) (w : swrite) : list N :=
  match s, w with
  | SValue t, WVal v => enc t v
  | SStream t, WItems bs => concat (map (enc_block t) (filter nonempty bs)) ++ [0]
  | _, _ => []
  end.

Fixpoint enc_steps (p : protocol) (ws : list swrite) : list N :=
  match p, ws with
  | s :: pr, w :: wr => enc_step s w ++ enc_steps pr wr
  | _, _ => []
  end.

Definition enc_protocol (schema : list N) (p : protocol) (ws : list swrite) : list N :=
  enc_header schema ++ enc_steps p ws.

(* blocks until the 0 marker; fuel bounds the number of blocks (each costs >= 1 byte) *)
Fixpoint dec_blocks (fuel : nat) (t : ty) (l : list N) : option (list val * list N) :=
  match fuel with
  | O => None
  | S f =>
      match vdec l with
      | None => None
      | Some (n, r) =>
          if n =? 0 then Some ([], r)
          else match dec_n (dec t) (N.to_nat n) r with
               | Some (vs, r') => match dec_blocks f t r' with
                                  | Some (ws, r'') => Some (vs ++ ws, r'')
                                  | None => None end
               | None => None
               end
      end
  end.

Definition dec_step (s : step) (l : list N) : option (sread * list N) :=
  match s with
  | SValue t => match dec t l with Some (v, r) => Some (RVal v, r) | None => None end
  | SStream t => match dec_blocks (S (length l)) t l with
                 | Some (vs, r) => Some (RItems vs, r) | None => None end
  end.

Fixpoint dec_steps (p : protocol) (l : list N) : option (list sread * list N) :=
  match p with
  | [] => Some ([], l)
  | s :: pr => match dec_step s l with
               | Some (v, r) => match dec_steps pr r with
                                | Some (vs, r') => Some (v :: vs, r')
                                | None => None end
               | None => None end
  end.

Inductive hres := HOk (schema rest : list N) | HBadMagic | HBadVersion | HEof.

Definition dec_header (l : list N) : hres :=
  match take 5 l with
  | None => HEof
  | Some (m, r) =>
      if negb (list_eq_N m magic) then HBadMagic
      else match take 4 r with
           | None => HEof
           | Some (v, r2) =>
               if negb (le_dec v =? format_version) then HBadVersion
               else match vdec r2 with
                    | None => HEof
                    | Some (n, r3) => match take n r3 with
                                      | Some (s, r4) => HOk s r4
                                      | None => HEof end
                    end
           end
  end.

(* a reader that expects [schema]: refuses anything else before yielding a value;
   Close() requires the input to be consumed completely *)
Inductive pres := POk (vs : list sread) | PHeaderError | PSchemaMismatch | PDataError | PNotFinished.

Definition dec_protocol (expected : list N) (p : protocol) (l : list N) : pres :=
  match dec_header l with
  | HOk s r =>
      if negb (list_eq_N s expected) then PSchemaMismatch
      else match dec_steps p r with
           | Some (vs, []) => POk vs
           | Some (_, _ :: _) => PNotFinished
           | None => PDataError
           end
  | _ => PHeaderError
  end.

Definition sread_of (w : swrite) : sread :=
  match w with WVal v => RVal v | WItems bs => RItems (concat bs) end.

Definition step_ok (s : step) (w : swrite) : bool :=
  match s, w with
  | SValue t, WVal v => has_type t v
  | SStream t, WItems bs => forallb (forallb (has_type t)) bs
  | _, _ => false
  end.

Fixpoint steps_ok (p : protocol) (ws : list swrite) : bool :=
  match p, ws with
  | [], [] => true
  | s :: pr, w :: wr => step_ok s w && steps_ok pr wr
  | _, _ => false
  end.
