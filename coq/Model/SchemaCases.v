(* Evaluation glue for the schema model: decidable equalities and case statuses (used by harness/checks/c04.py). *)
From Coq Require Import List NArith ZArith Bool.
From YV Require Import Base.Wire Model.Binary Model.Json Model.Schema.
Import ListNotations.
Open Scope N_scope.

Definition opt_eqb {A} (f : A -> A -> bool) (a b : option A) : bool :=
  match a, b with Some x, Some y => f x y | None, None => true | _, _ => false end.

Fixpoint list_eqb {A} (f : A -> A -> bool) (a b : list A) : bool :=
  match a, b with
  | [], [] => true
  | x :: ar, y :: br => f x y && list_eqb f ar br
  | _, _ => false
  end.

Fixpoint sty_eqb (a b : sty) {struct a} : bool :=
  match a, b with
  | SRef n1 a1, SRef n2 a2 =>
      str_eqb n1 n2 &&
      (fix go (x y : list sty) : bool :=
         match x, y with [], [] => true | p :: pr, q :: qr => sty_eqb p q && go pr qr | _, _ => false end) a1 a2
  | SCases c1, SCases c2 =>
      (fix go (x y : list (str * option sty)) : bool :=
         match x, y with
         | [], [] => true
         | (t1, o1) :: pr, (t2, o2) :: qr =>
             str_eqb t1 t2 &&
             match o1, o2 with Some p, Some q => sty_eqb p q | None, None => true | _, _ => false end && go pr qr
         | _, _ => false
         end) c1 c2
  | SVec l1 e1, SVec l2 e2 => opt_eqb N.eqb l1 l2 && sty_eqb e1 e2
  | SArr d1 e1, SArr d2 e2 =>
      opt_eqb (list_eqb (fun p q => opt_eqb str_eqb (fst p) (fst q) && opt_eqb N.eqb (snd p) (snd q))) d1 d2 && sty_eqb e1 e2
  | SMap k1 v1, SMap k2 v2 => sty_eqb k1 k2 && sty_eqb v1 v2
  | _, _ => false
  end.

Definition sbody_eqb (a b : sbody) : bool :=
  match a, b with
  | BRecord f1, BRecord f2 => list_eqb (fun p q => str_eqb (fst p) (fst q) && sty_eqb (snd p) (snd q)) f1 f2
  | BEnum b1 v1, BEnum b2 v2 =>
      opt_eqb sty_eqb b1 b2 && list_eqb (fun p q => str_eqb (fst p) (fst q) && (snd p =? snd q)%Z) v1 v2
  | BAlias t1, BAlias t2 => sty_eqb t1 t2
  | _, _ => false
  end.

Definition sdef_eqb (a b : sdef) : bool :=
  str_eqb (d_name a) (d_name b) && list_eqb str_eqb (d_params a) (d_params b) && sbody_eqb (d_body a) (d_body b).

Definition sproto_eqb (a b : sproto) : bool :=
  str_eqb (p_name a) (p_name b) &&
  list_eqb (fun p q => str_eqb (fst (fst p)) (fst (fst q)) && Bool.eqb (snd (fst p)) (snd (fst q)) && sty_eqb (snd p) (snd q))
           (p_steps a) (p_steps b).

Definition schema_eqb (a b : schema) : bool :=
  sproto_eqb (fst a) (fst b) && list_eqb sdef_eqb (snd a) (snd b).

Definition prim_kind_tag (p : prim) : N :=
  match p with
  | PBool => 0 | PInt8 => 1 | PUint8 => 2 | PInt16 => 3 | PUint16 => 4 | PInt32 => 5 | PUint32 => 6 | PInt64 => 7
  | PUint64 => 8 | PSize => 9 | PFloat32 => 10 | PFloat64 => 11 | PCFloat32 => 12 | PCFloat64 => 13 | PString => 14
  | PDate => 15 | PTime => 16 | PDateTime => 17
  end.

Fixpoint ty_eqb (a b : ty) {struct a} : bool :=
  match a, b with
  | TPrim p, TPrim q => N.eqb (prim_kind_tag p) (prim_kind_tag q)
  | TEnum p, TEnum q => N.eqb (prim_kind_tag p) (prim_kind_tag q)
  | TOpt x, TOpt y => ty_eqb x y
  | TUnion h1 c1, TUnion h2 c2 =>
      Bool.eqb h1 h2 &&
      (fix go (x y : list ty) : bool :=
         match x, y with [], [] => true | p :: pr, q :: qr => ty_eqb p q && go pr qr | _, _ => false end) c1 c2
  | TVec x, TVec y => ty_eqb x y
  | TFixVec n x, TFixVec m y => (n =? m) && ty_eqb x y
  | TArr n x, TArr m y => (n =? m) && ty_eqb x y
  | TFixArr d1 x, TFixArr d2 y => list_eqb N.eqb d1 d2 && ty_eqb x y
  | TDynArr x, TDynArr y => ty_eqb x y
  | TMap k1 v1, TMap k2 v2 => ty_eqb k1 k2 && ty_eqb v1 v2
  | TRec f1, TRec f2 =>
      (fix go (x y : list ty) : bool :=
         match x, y with [], [] => true | p :: pr, q :: qr => ty_eqb p q && go pr qr | _, _ => false end) f1 f2
  | _, _ => false
  end.

(* the real schema text names definitions without their namespace *)
Fixpoint after_last_dot (acc s : str) : str :=
  match s with
  | [] => acc
  | c :: r => if c =? 46 then after_last_dot r r else after_last_dot acc r
  end.
Definition erase_ns (d : sdef) : sdef :=
  {| d_name := after_last_dot (d_name d) (d_name d); d_params := d_params d; d_body := d_body d |}.

Definition FUEL : nat := 64.

(* (environment from model.json, protocol, schema parsed from the generated code, structural step types of the harness)
   -> 0 fine | 1 schema_of differs from the real schema | 2 wire differs from the harness expansion (or fuel exhausted)
   | 3 env_ok fails *)
Definition owire_eqb (a b : list (bool * option ty)) : bool :=
  list_eqb (fun x y => Bool.eqb (fst x) (fst y) && opt_eqb ty_eqb (snd x) (snd y)) a b.
Definition scase := (list fdef * fproto * schema * option (list (bool * ty)))%type.
Definition scase_status (c : scase) : N :=
  let '(env, fp, real, steps) := c in
  if negb (env_ok env) then 3 else
  let s := schema_of FUEL env fp in
  if negb (schema_eqb (fst s, map erase_ns (snd s)) real) then 1 else
  match steps with
  | None => if forallb (fun x => match snd x with Some _ => true | None => false end) (wire FUEL env fp) then 0 else 2
  | Some st => if owire_eqb (wire FUEL env fp) (map (fun x => (fst x, Some (snd x))) st) then 0 else 2
  end.

(* edits: (env, p) before and (env', p') after -> (schema equal?, wire equal?, wire defined on both sides?) *)
Definition ecase := (list fdef * fproto * list fdef * fproto)%type.
Definition ecase_status (c : ecase) : N :=
  let '(env, fp, env', fp') := c in
  let s := schema_of FUEL env fp in let s' := schema_of FUEL env' fp' in
  let w := wire FUEL env fp in let w' := wire FUEL env' fp' in
  (if schema_eqb s s' then 1 else 0) + (if owire_eqb w w' then 2 else 0)
  + (if forallb (fun x => match snd x with Some _ => true | None => false end) (w ++ w') then 4 else 0).
