(* The typed layer of the generated C++ binary readers as reader programs over the coded input stream: the calls serializers.h
   and the generated Read* functions make, each continuing with what the call returned; the memcpy fast paths (ReadBytes of
   sizeof bytes straight into the object) are taken when IsTriviallySerializable holds ([ts true]), the bytes then being the
   object's image, i.e. - Proofs/CppLayoutProofs.v - its field-by-field encoding, decoded here by the slow-path program. *)
From Coq Require Import List NArith ZArith Bool.
From YV Require Import Base.Wire Model.Binary Model.CodedCpp Model.CppLayout Model.CppReadProg.
Import ListNotations.
Open Scope N_scope.

Definition c_byte {A} (k : N -> cprog A) : cprog A := COp RByte (fun v => match v with VNum n => k n | _ => CFail end).
Definition c_var {A} (w : N) (k : N -> cprog A) : cprog A := COp (RVar w) (fun v => match v with VNum n => k n | _ => CFail end).
Definition c_bytes {A} (n : N) (k : list N -> cprog A) : cprog A := COp (RBytes n) (fun v => match v with VBytes l => k l | _ => CFail end).

Definition cpp_read_int (p : prim) : cprog val :=
  match int_width p with
  | Some (s, w) =>
      if w <=? 8 then c_byte (fun b => CRet (VInt (if s then to_signed 8 b else Z.of_N b)))
      else c_var (match p with PDate => 64 | _ => if w <=? 32 then 32 else 64 end)     (* ReadDate reads into an int64_t *)
                 (fun n => CRet (VInt (if s then zz_dec n else Z.of_N n)))
  | None => CFail
  end.

Definition cpp_read_prim (p : prim) : cprog val :=
  match p with
  | PFloat32 => c_bytes 4 (fun bs => CRet (VBits (le_dec bs)))            (* ReadTriviallySerializable: ReadBytes(&value, sizeof) *)
  | PFloat64 => c_bytes 8 (fun bs => CRet (VBits (le_dec bs)))
  | PCFloat32 => c_bytes 8 (fun bs => CRet (VCplx (le_dec (firstn 4 bs)) (le_dec (skipn 4 bs))))
  | PCFloat64 => c_bytes 16 (fun bs => CRet (VCplx (le_dec (firstn 8 bs)) (le_dec (skipn 8 bs))))
  | PString => c_var 64 (fun n => c_bytes n (fun bs => CRet (VStr bs)))
  | _ => cpp_read_int p
  end.

Definition cread_fields (f : ty -> cprog val) : list ty -> cprog (list val) :=
  fix go (fs : list ty) : cprog (list val) :=
    match fs with
    | [] => CRet []
    | t :: r => cbind (f t) (fun x => cbind (go r) (fun xs => CRet (x :: xs)))
    end.

(* the elements of a vector / array: [slow] decodes one element field by field, [rd] is how one element is read in place *)
Definition cread_data (fast : bool) (e : ty) (slow rd : cprog val) (count : N) : cprog (list val) :=
  if fast && ts true e then
    match layout e with
    | Some (s, _) =>
        c_bytes (count * s) (fun bs =>
          match arun_c (crep (N.to_nat count) slow) bs with
          | CVal xs [] => CRet xs
          | _ => CFail
          end)
    | None => CFail
    end
  else crep (N.to_nat count) rd.

Fixpoint cpp_read' (fast : bool) (t : ty) : cprog val :=
  match t with
  | TPrim p => cpp_read_prim p
  | TEnum b => cpp_read_int b
  | TOpt e => c_byte (fun b => if b =? 0 then CRet VNone else cbind (cpp_read' fast e) (fun v => CRet (VSome v)))
  | TUnion hn cs =>
      c_var 64 (fun idx =>
        if hn && (idx =? 0) then CRet VNone
        else let i := idx - (if hn then 1 else 0) in
             cbind (pick (fun c => cpp_read' fast c) CFail cs i) (fun v => CRet (VCase i v)))
  | TVec e =>
      c_var 64 (fun n => cbind (cread_data fast e (cpp_read' false e) (cpp_read' fast e) n) (fun xs => CRet (VSeq xs)))
  | TFixVec n e => cbind (cread_data fast e (cpp_read' false e) (cpp_read' fast e) n) (fun xs => CRet (VSeq xs))
  | TArr rank e =>
      cbind (crep (N.to_nat rank) (c_var 64 (fun d => CRet d))) (fun sh =>
        cbind (cread_data fast e (cpp_read' false e) (cpp_read' fast e) (prodN sh)) (fun xs => CRet (VArr sh xs)))
  | TFixArr dims e =>
      cbind (cread_data fast e (cpp_read' false e) (cpp_read' fast e) (prodN dims)) (fun xs => CRet (VArr dims xs))
  | TDynArr e =>
      c_var 64 (fun rank =>
        cbind (crep (N.to_nat rank) (c_var 64 (fun d => CRet d))) (fun sh =>
          cbind (cread_data fast e (cpp_read' false e) (cpp_read' fast e) (prodN sh)) (fun xs => CRet (VArr sh xs))))
  | TMap k e =>
      c_var 64 (fun n =>
        cbind (crep (N.to_nat n) (cbind (cpp_read' fast k) (fun a => cbind (cpp_read' fast e) (fun b => CRet (a, b)))))
              (fun kvs => CRet (VMapv kvs)))
  | TRec fs =>
      if fast && ts true (TRec fs) then
        match layout (TRec fs) with
        | Some (s, _) =>
            c_bytes s (fun bs =>
              match arun_c (cread_fields (cpp_read' false) fs) bs with
              | CVal xs [] => CRet (VSeq xs)
              | _ => CFail
              end)
        | None => CFail
        end
      else cbind (cread_fields (cpp_read' fast) fs) (fun xs => CRet (VSeq xs))
  end.

Definition cpp_read (t : ty) : cprog val := cpp_read' true t.

(* ---------- a whole protocol: header, steps (streams read item by item: ReadBlock), VerifyFinished ---------- *)
Definition cpp_read_header (expected : list N) : cprog unit :=
  c_bytes 5 (fun m =>
    if negb (list_eq_N m magic) then CFail
    else COp (RFixed 4) (fun v =>
      match v with
      | VNum ver =>
          if negb (ver =? format_version) then CFail
          else c_var 64 (fun n => c_bytes n (fun s => if list_eq_N s expected then CRet tt else CFail))
      | _ => CFail
      end)).

Fixpoint cpp_read_stream (fuel : nat) (t : ty) : cprog (list val) :=
  match fuel with
  | O => CFail
  | S f => c_var 64 (fun n => if n =? 0 then CRet []
                              else cbind (crep (N.to_nat n) (cpp_read t)) (fun xs =>
                                   cbind (cpp_read_stream f t) (fun ys => CRet (xs ++ ys))))
  end.

Inductive crstep := CRVal (t : ty) | CRStream (t : ty) (nblocks : nat).

(* the calls a program issues on an input, with what each returns *)
Fixpoint crtrace {A} (p : cprog A) (l : list N) : list (rop * rval) * option (list N) :=
  match p with
  | CRet _ => ([], Some l)
  | CFail => ([], None)
  | COp op k => match astep l op with
                | AOk v r => let '(tr, rest) := crtrace (k v) r in ((op, v) :: tr, rest)
                | _ => ([], None)
                end
  end.

Fixpoint crtrace_steps (steps : list crstep) (l : list N) : list (rop * rval) :=
  match steps with
  | [] => match astep l RVerify with AOk v _ => [(RVerify, v)] | _ => [] end
  | s :: r =>
      let '(tr, rest) := match s with
                         | CRVal t => crtrace (cpp_read t) l
                         | CRStream t nb => crtrace (cpp_read_stream (S nb) t) l
                         end in
      match rest with
      | Some l' => tr ++ crtrace_steps r l'
      | None => tr
      end
  end.

Definition rop_eqb (a b : rop) : bool :=
  match a, b with
  | RByte, RByte | RVerify, RVerify => true
  | RVar x, RVar y => x =? y
  | RFixed x, RFixed y => Nat.eqb x y
  | RBytes x, RBytes y => x =? y
  | _, _ => false
  end.

Fixpoint lnb (a b : list N) : bool :=
  match a, b with [], [] => true | x :: a', y :: b' => (x =? y) && lnb a' b' | _, _ => false end.
Definition rv_eqb (a b : rval) : bool :=
  match a, b with
  | VNum x, VNum y => x =? y
  | VBytes x, VBytes y => lnb x y
  | VUnit, VUnit => true
  | _, _ => false
  end.

(* ReadByte and ReadBytes(1) (the memcpy path the generated Read<Alias> function of an alias of an 8-bit type takes) deliver the
   same byte *)
Definition one_byte_same (o1 : rop) (v1 : rval) (o2 : rop) (v2 : rval) : bool :=
  match o1, v1, o2, v2 with
  | RByte, VNum x, RBytes 1, VBytes [y] => x =? y
  | _, _, _, _ => false
  end.

Fixpoint cfirst_rdiff (i : N) (a b : list (rop * rval)) : N :=
  match a, b with
  | [], [] => 0
  | (o1, v1) :: a', (o2, v2) :: b' =>
      if (rop_eqb o1 o2 && rv_eqb v1 v2) || one_byte_same o1 v1 o2 v2 || one_byte_same o2 v2 o1 v1
      then cfirst_rdiff (i + 1) a' b' else i + 1
  | _, _ => i + 1
  end.

(* the reader's schema, the steps, the whole stream, the calls observed *)
Definition crtcase := (list N * list crstep * list N * list (rop * rval))%type.
Definition crtcase_status (c : crtcase) : N :=
  let '(schema, steps, stream, obs) := c in
  let '(htr, rest) := crtrace (cpp_read_header schema) stream in
  cfirst_rdiff 0 (htr ++ match rest with Some body => crtrace_steps steps body | None => [] end) obs.
