(* The C++ "trivially serializable" fast path: generated C++ writes a record with ONE memcpy of sizeof(record) bytes when
   yardl::binary::IsTriviallySerializable<Record>::value holds (tooling/internal/cpp/binary/binary.go,
   writeIsTriviallySerializableSpecialization; leaf and array specializations in include/detail/binary/serializers.h).
   This file models
   - the object layout (size, alignment, member offsets) of the C++ types generated for resolved yardl types, following the
     Itanium C++ ABI on x86-64 with libstdc++ (what the checks compile with);  std::array<T, 0> occupies ONE byte;
   - the value of the trait, as the header and the generated specializations compute it from sizeof / offsetof;
   - the object representation ("image") that memcpy copies: field images at their offsets, padding bytes unspecified (None).
   Executable definitions only.  The tie (harness/checks/c14.py) prints sizeof, offsetof and the trait from a probe compiled
   against the generated headers and compares them with [layout], [offsets_of] and [ts true]. *)
From Coq Require Import List NArith ZArith Bool.
From YV Require Import Base.Wire Model.Binary.
Import ListNotations.
Open Scope N_scope.

Definition align_up (o a : N) : N := ((o + a - 1) / a) * a.

(* (sizeof, alignof); None: not modelled (std::string, dates, and below: vectors, optionals, variants, maps, dynamic arrays) *)
Definition prim_layout (p : prim) : option (N * N) :=
  match p with
  | PBool | PInt8 | PUint8 => Some (1, 1)
  | PInt16 | PUint16 => Some (2, 2)
  | PInt32 | PUint32 | PFloat32 => Some (4, 4)
  | PInt64 | PUint64 | PSize | PFloat64 => Some (8, 8)
  | PCFloat32 => Some (8, 4)
  | PCFloat64 => Some (16, 8)
  | _ => None
  end.

(* non-static data members in declaration order: each at the next multiple of its alignment *)
Definition fields_layout (f : ty -> option (N * N)) : list ty -> N -> N -> option (N * N) :=
  fix go (fs : list ty) (off al : N) : option (N * N) :=
    match fs with
    | [] => Some (off, al)
    | t :: r => match f t with
                | Some (s, a) => go r (align_up off a + s) (N.max al a)
                | None => None
                end
    end.

Fixpoint layout (t : ty) : option (N * N) :=
  match t with
  | TPrim p => prim_layout p
  | TEnum b => prim_layout b                      (* enum class E : base *)
  | TFixVec n e =>                                (* std::array<E, n> *)
      match layout e with
      | Some (s, a) => if n =? 0 then Some (1, 1) else Some (n * s, a)
      | None => None
      end
  | TFixArr dims e =>                             (* yardl::FixedNDArray<E, dims...>: taken to be its elements, contiguous *)
      match layout e with
      | Some (s, a) => if prodN dims =? 0 then Some (1, 1) else Some (prodN dims * s, a)
      | None => None
      end
  | TRec fs =>
      match fields_layout layout fs 0 1 with
      | Some (e, al) => Some (align_up e al, al)
      | None => None
      end
  | _ => None
  end.

Definition offsets_of (f : ty -> option (N * N)) : list ty -> N -> option (list N) :=
  fix go (fs : list ty) (off : N) : option (list N) :=
    match fs with
    | [] => Some []
    | t :: r => match f t with
                | Some (s, a) => match go r (align_up off a + s) with
                                 | Some l => Some (align_up off a :: l)
                                 | None => None
                                 end
                | None => None
                end
    end.

Definition sum_sizes (f : ty -> option (N * N)) : list ty -> option N :=
  fix go (fs : list ty) : option N :=
    match fs with
    | [] => Some 0
    | t :: r => match f t, go r with
                | Some (s, _), Some k => Some (s + k)
                | _, _ => None
                end
    end.

Fixpoint increasing (l : list N) : bool :=
  match l with
  | a :: r => match r with b :: _ => (a <? b) && increasing r | [] => true end
  | [] => true
  end.

(* the leaf specializations of serializers.h: one-byte integral types (bool, int8_t, uint8_t), floating point, std::complex *)
Definition leaf_ts (p : prim) : bool :=
  match p with
  | PBool | PInt8 | PUint8 | PFloat32 | PFloat64 | PCFloat32 | PCFloat64 => true
  | _ => false
  end.

Section Trait.
(* true: the array specializations require a non-zero element count (the header as it is);
   false: the header before /repo commit 7b8854d *)
Variable guard0 : bool.

Fixpoint ts (t : ty) : bool :=
  match t with
  | TPrim p => leaf_ts p
  | TFixVec n e => ts e && (negb guard0 || (0 <? n))
  | TFixArr dims e => ts e && (negb guard0 || (0 <? prodN dims))
  | TRec fs =>
      (* is_standard_layout && every member trivially serializable && sizeof == sum of member sizes && offsets increasing *)
      forallb ts fs &&
      match layout (TRec fs), sum_sizes layout fs, offsets_of layout fs 0 with
      | Some (sz, _), Some k, Some offs => (sz =? k) && increasing offs
      | _, _, _ => false
      end
  | _ => false
  end.
End Trait.

(* ---------- what memcpy copies ---------- *)

Definition pad (n : N) : list (option N) := repeat None (N.to_nat n).

Definition img_fields (img : ty -> val -> list (option N)) : list ty -> list val -> N -> list (option N) :=
  fix go (fs : list ty) (xs : list val) (off : N) : list (option N) :=
    match fs, xs with
    | t :: fr, x :: xr =>
        match layout t with
        | Some (s, a) => pad (align_up off a - off) ++ img t x ++ go fr xr (align_up off a + s)
        | None => []
        end
    | _, _ => []
    end.

Fixpoint img (t : ty) (v : val) {struct t} : list (option N) :=
  match t, v with
  | TPrim p, _ =>
      if leaf_ts p then map Some (enc (TPrim p) v)      (* little-endian x86-64: the object bytes of these ARE their encoding *)
      else match prim_layout p with Some (s, _) => pad s | None => [] end
  | TFixVec n e, VSeq xs => if n =? 0 then [None] else concat (map (img e) xs)
  | TFixArr dims e, VArr sh xs => if prodN dims =? 0 then [None] else concat (map (img e) xs)
  | TRec fs, VSeq xs =>
      match fields_layout layout fs 0 1 with
      | Some (e, al) => img_fields img fs xs 0 ++ pad (align_up e al - e)
      | None => []
      end
  | _, _ => []
  end.
