(* Evaluation glue for the correspondence checks of the coded streams: the harness writes the
   inputs it gave to the real classes together with what they returned; [mismatches] lists the
   indices on which the machine models (and the abstract reader/writer) say otherwise. *)
From Coq Require Import List NArith ZArith Bool.
From YV Require Import Base.Wire Model.CodedCpp.
Import ListNotations.
Open Scope N_scope.

Fixpoint list_eqb {A} (eqb : A -> A -> bool) (a b : list A) : bool :=
  match a, b with
  | [], [] => true
  | x :: a', y :: b' => eqb x y && list_eqb eqb a' b'
  | _, _ => false
  end.

Definition rval_eqb (a b : rval) : bool :=
  match a, b with
  | VNum x, VNum y => x =? y
  | VBytes x, VBytes y => list_eqb N.eqb x y
  | VUnit, VUnit => true
  | _, _ => false
  end.

Definition fault_eqb (a b : fault) : bool :=
  match a, b with
  | StaleRead, StaleRead | NotFinished, NotFinished | Overflow, Overflow
  | UBShift, UBShift | OutOfFuel, OutOfFuel => true
  | _, _ => false
  end.

Definition res_eqb {A} (eqb : A -> A -> bool) (a b : res A) : bool :=
  match a, b with
  | Ok x, Ok y => eqb x y
  | Eof, Eof => true
  | Fault x, Fault y => fault_eqb x y
  | _, _ => false
  end.

Fixpoint mismatches_from {A} (ok : A -> bool) (i : N) (l : list A) : list N :=
  match l with
  | [] => []
  | x :: r => if ok x then mismatches_from ok (i + 1) r else i :: mismatches_from ok (i + 1) r
  end.
Definition mismatches {A} (ok : A -> bool) (l : list A) : list N := mismatches_from ok 0 l.

(* a reader case: buffer size, input, script, observed outcomes (up to the first exception) *)
Definition rcase := (nat * list N * list rop * list (res rval))%type.

(* the machine agrees with the observation; UB in the model (malformed varint) is not compared *)
Definition has_ub (l : list (res rval)) : bool :=
  existsb (fun r => match r with Fault UBShift => true | _ => false end) l.

(* the machine model agrees with the observation *)
Definition rcase_ok_machine (c : rcase) : bool :=
  let '(bs, inp, ops, obs) := c in
  if has_ub (arun inp ops) then true
  else list_eqb (res_eqb rval_eqb) (rrun bs (cin_init inp) ops) obs.

(* the abstract byte-list reader (the byte-level contract itself) agrees with the observation *)
Definition rcase_ok_abs (c : rcase) : bool :=
  let '(bs, inp, ops, obs) := c in
  let a := arun inp ops in
  if has_ub a then true else list_eqb (res_eqb rval_eqb) a obs.

(* a writer case: buffer size, script, observed (all bytes, chunk sizes) *)
Definition wcase := (nat * list wop * list N * list nat)%type.

Definition wcase_ok_machine (c : wcase) : bool :=
  let '(bs, ops, bytes, sizes) := c in
  match wfinish bs ops with
  | Ok ch => list_eqb N.eqb (concat ch) bytes && list_eqb Nat.eqb (map (@length N) ch) sizes
  | _ => false
  end.

Definition wcase_ok_abs (c : wcase) : bool :=
  let '(bs, ops, bytes, sizes) := c in list_eqb N.eqb (concat (map wbytes ops)) bytes.

(* ---- the Python reader (_binary.py CodedInputStream) ---- *)
From YV Require Import Model.CodedPy.

Definition pfault_eqb (a b : pfault) : bool :=
  match a, b with
  | BufferErr, BufferErr | PStale, PStale | POutOfFuel, POutOfFuel => true
  | _, _ => false
  end.

Definition pyres_eqb {A} (eqb : A -> A -> bool) (a b : pyres A) : bool :=
  match a, b with
  | PyOk x, PyOk y => eqb x y
  | PyEof, PyEof => true
  | PyFault x, PyFault y => pfault_eqb x y
  | _, _ => false
  end.

Definition pcase := (nat * list N * list pop * list (pyres rval))%type.

(* the machine model agrees with the observation, exception kinds included *)
Definition pcase_ok_machine (c : pcase) : bool :=
  let '(bs, inp, ops, obs) := c in
  list_eqb (pyres_eqb rval_eqb) (prun bs (pin_init inp) ops) obs.

(* the byte-level contract agrees with the observation, any exception standing for end-of-input *)
Definition pcase_ok_abs (c : pcase) : bool :=
  let '(bs, inp, ops, obs) := c in
  list_eqb (pyres_eqb rval_eqb) (parun inp ops) (map pnorm obs).

(* ---- the Python writer (_binary.py CodedOutputStream) ---- *)
(* buffer size, script, observed bytes, observed chunk sizes, exception? (0 none, 1 IndexError, 2 struct.error, 3 AssertionError, 4 other) *)
Definition pwcase := (nat * list pwop * list N * list nat * nat)%type.

Definition pwcase_ok_machine (c : pwcase) : bool :=
  let '(bs, ops, bytes, sizes, err) := c in
  match pwfinish bs ops with
  | PWOk ch => Nat.eqb err 0 && list_eqb N.eqb (concat ch) bytes && list_eqb Nat.eqb (map (@length N) ch) sizes
  | PWFault IndexErr => Nat.eqb err 1
  | PWFault StructErr => Nat.eqb err 2
  | PWFault AssertErr => Nat.eqb err 3
  end.

(* no exception => exactly the bytes the operations denote *)
Definition pwcase_ok_abs (c : pwcase) : bool :=
  let '(bs, ops, bytes, sizes, err) := c in
  if Nat.eqb err 0 then list_eqb N.eqb (concat (map pwbytes ops)) bytes else true.
