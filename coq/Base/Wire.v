(* L1 — wire-level primitives of yardl's compact binary format.
   Bytes are N (< 256).  Executable definitions only; proofs are in Proofs/WireProofs.v. *)
From Coq Require Export List NArith ZArith Bool.
Export ListNotations.
Open Scope N_scope.

Definition is_byte (b : N) : bool := b <? 256.
Definition all_bytes (l : list N) : bool := forallb is_byte l.

(* ---------- varint (protobuf style), as written by
   coded_stream.h:WriteVarInt and _binary.py:write_unsigned_varint ---------- *)

Fixpoint venc_fuel (fuel : nat) (n : N) : list N :=
  match fuel with
  | O => [n]
  | S f => if n <? 128 then [n] else (n mod 128 + 128) :: venc_fuel f (n / 128)
  end.

(* N.size n is the number of binary digits of n; that many rounds always suffice. *)
Definition venc (n : N) : list N := venc_fuel (N.to_nat (N.size n)) n.

(* Abstract decoder: structural on the input; unbounded result (as Python's int).
   A byte >= 128 continues, a byte < 128 terminates.  None = input exhausted. *)
Fixpoint vdec (l : list N) : option (N * list N) :=
  match l with
  | [] => None
  | b :: r =>
      if b <? 128 then Some (b, r)
      else match vdec r with
           | Some (v, r') => Some ((b - 128) + 128 * v, r')
           | None => None
           end
  end.

(* Number of bytes the decoder consumes (when it succeeds). *)
Fixpoint vlen (l : list N) : option nat :=
  match l with
  | [] => None
  | b :: r => if b <? 128 then Some 1%nat
              else match vlen r with Some k => Some (S k) | None => None end
  end.

(* ---------- zig-zag ---------- *)

Definition zz_enc (z : Z) : N :=
  if (0 <=? z)%Z then Z.to_N (2 * z) else Z.to_N (-2 * z - 1).

Definition zz_dec (n : N) : Z :=
  if N.even n then Z.of_N (n / 2) else (- Z.of_N ((n + 1) / 2))%Z.

(* w-bit two's complement views (the C++ casts). *)
Definition to_unsigned (w : N) (z : Z) : N := Z.to_N (z mod 2 ^ Z.of_N w).
Definition to_signed (w : N) (n : N) : Z :=
  let m := n mod 2 ^ w in
  if m <? 2 ^ (w - 1) then Z.of_N m else (Z.of_N m - 2 ^ Z.of_N w)%Z.

(* ---------- fixed-width little endian ---------- *)

Fixpoint le_enc (k : nat) (n : N) : list N :=
  match k with
  | O => []
  | S k' => (n mod 256) :: le_enc k' (n / 256)
  end.

Fixpoint le_dec (l : list N) : N :=
  match l with
  | [] => 0
  | b :: r => b + 256 * le_dec r
  end.

(* ---------- list helpers used by all byte-level models ---------- *)

(* take exactly n elements; None when fewer are available.  Structural on the list, so a
   hostile (huge) n costs nothing. *)
Fixpoint take (n : N) (l : list N) : option (list N * list N) :=
  if n =? 0 then Some ([], l)
  else match l with
       | [] => None
       | b :: r => match take (n - 1) r with
                   | Some (h, t) => Some (b :: h, t)
                   | None => None
                   end
       end.

Definition in_range_u (w : N) (z : Z) : bool := ((0 <=? z) && (z <? 2 ^ Z.of_N w))%Z.
Definition in_range_s (w : N) (z : Z) : bool :=
  ((- 2 ^ (Z.of_N w - 1) <=? z) && (z <? 2 ^ (Z.of_N w - 1)))%Z.
