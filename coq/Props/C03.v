(* C03 — streams are portable across target languages and formats (binary part proved; the NDJSON
   legs are established by cross-language round trips, see the check). *)
From Coq Require Import List NArith ZArith Bool.
From YV Require Import Base.Wire Model.Binary Proofs.BinaryProofs Proofs.ProtocolProofs.
From YV Require Import Model.CodedCpp Model.CodedPy Model.CppLayout Model.CppTyped Proofs.CppTypedProofs Model.CppReadProg Model.CppTypedRead
  Proofs.CppTypedReadProofs Model.PyTyped Proofs.PyTypedProofs Model.PyReadProg Model.PyTypedRead Proofs.PyTypedReadProofs Proofs.CrossTypedProofs.
Import ListNotations.
Open Scope N_scope.

(* Python and C++ write the same bytes for every well-typed value of every type whose unions have
   fewer than 128 alternatives (the only place where the two writers differ: Python writes the case
   index as one raw byte, C++ as a varint) *)
Theorem C03_cross_language_bytes : forall t, small_unions t = true ->
  forall v, has_type t v = true -> enc_py t v = enc t v.
Proof. exact enc_py_eq. Qed.
Print Assumptions C03_cross_language_bytes.

(* hence what either language writes, the other reads back exactly (both readers implement [dec]) *)
Theorem C03_cross_read : forall t v rest, small_unions t = true -> has_type t v = true ->
  dec t (enc_py t v ++ rest) = Some (v, rest).
Proof. intros t v rest Hs Hv. rewrite (enc_py_eq t Hs v Hv). apply dec_enc. exact Hv. Qed.
Print Assumptions C03_cross_read.

(* the guard is needed: with 128 or more alternatives the writers disagree *)
Theorem C03_large_union_refuted :
  let t := TUnion false (repeat (TPrim PBool) 200) in
  has_type t (VCase 130 (VInt 1)) = true /\ enc_py t (VCase 130 (VInt 1)) <> enc t (VCase 130 (VInt 1)).
Proof. exact enc_py_differs_large_union. Qed.
Print Assumptions C03_large_union_refuted.

(* block partition and map entry order are the only freedom: any partition decodes to the same items *)
Theorem C03_partition_irrelevant : forall schema p ws1 ws2,
  steps_ok p ws1 = true -> steps_ok p ws2 = true -> map sread_of ws1 = map sread_of ws2 ->
  dec_protocol schema p (enc_protocol schema p ws1) = dec_protocol schema p (enc_protocol schema p ws2).
Proof. exact grouping_irrelevant. Qed.
Print Assumptions C03_partition_irrelevant.

(* At the level of the typed programs of both generated code bases (Model.PyTyped / PyTypedRead, Model.CppTyped / CppTypedRead,
   each tied to its code by call traces in C01): what the generated Python writer emits, the generated C++ reader reads back
   as the same value - fast paths of both sides included - and conversely; unions with at most 127 cases. *)
Theorem C03_python_writes_cpp_reads : forall t v rest, small_unions t = true -> has_type t v = true -> vsmall v = true ->
  arun_c (cpp_read t) (obytes (py_wops t v) ++ rest) = CVal v rest.
Proof. exact py_writes_cpp_reads. Qed.
Print Assumptions C03_python_writes_cpp_reads.

Theorem C03_cpp_writes_python_reads : forall t v rest, small_unions t = true -> has_type t v = true -> vsmall v = true ->
  arun_p (py_read t) (cbytes (cpp_wops t v) ++ rest) = PVal v rest.
Proof. exact cpp_writes_py_reads. Qed.
Print Assumptions C03_cpp_writes_python_reads.
