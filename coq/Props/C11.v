(* C11 — generation is all-or-nothing with respect to validation. *)
From Coq Require Import List NArith Bool.
From YV Require Import Model.GenPhases Proofs.GenPhasesProofs Gen.GenerateImpl.
Import ListNotations.

(* the phase list of the CURRENT generateImpl (regenerated from generatecommand.go on every run):
   loading, configuration and validation come before every writer, and their errors are returned at once *)
Theorem C11_phases_ordered : phases_ok generate_phases = true.
Proof. vm_compute. reflexivity. Qed.
Print Assumptions C11_phases_ordered.

(* hence: whatever the package, the output configuration and the previous contents of the output
   directories, a failing load / configuration / validation phase (main package, an import, a previous
   version or the evolution check are all inside the validation phase) gives exit status 1 and leaves
   the output file system exactly as it was *)
Theorem C11_all_or_nothing : forall (runs : list phase_run) (s : fs),
  length runs = length generate_phases ->
  existsb (fun pr => is_gate (fst pr) && negb (ok (snd pr))) (combine generate_phases runs) = true ->
  run (combine generate_phases runs) s = (1%N, s).
Proof. exact (fun runs s => all_or_nothing_phases generate_phases runs s C11_phases_ordered). Qed.
Print Assumptions C11_all_or_nothing.

(* exit status 0 only when every checked phase succeeded *)
Theorem C11_exit_code : forall (l : list (phase * phase_run)) (s s' : fs),
  run l s = (0%N, s') -> forallb (fun pr => ok (snd pr) || negb (snd (fst pr))) l = true.
Proof. exact exit_zero_means_all_ok. Qed.
Print Assumptions C11_exit_code.
