(* C15 — readers refuse streams of a different schema or format (binary format). *)
From Coq Require Import List NArith ZArith.
From YV Require Import Base.Wire Model.Binary Proofs.ProtocolProofs.
From YV Require Import Model.CodedCpp Model.CodedPy Model.PyReadProg Model.PyTypedRead Proofs.PyTypedReadProofs.
From YV Require Import Model.CppLayout Model.CppReadProg Model.CppTypedRead Proofs.CppTypedReadProofs.
Import ListNotations.
Open Scope N_scope.

(* Whatever bytes a reader expecting [expected] accepts as a complete stream start with the magic
   bytes, four bytes that read as format version 1, a length prefix and exactly [expected]:
   every other header - corrupted magic, other version, any other schema - is refused. *)
Theorem C15_accepted_header : forall expected p l vs, dec_protocol expected p l = POk vs ->
  exists verbytes lenbytes r,
    l = magic ++ verbytes ++ lenbytes ++ expected ++ r
    /\ length verbytes = 4%nat /\ le_dec verbytes = format_version
    /\ vdec lenbytes = Some (N.of_nat (length expected), []).
Proof. exact accepted_header. Qed.
Print Assumptions C15_accepted_header.

(* a stream written under schema A is refused by a reader of any protocol whose schema differs,
   before any value is decoded (the result is the schema error, not a data error) *)
Theorem C15_no_foreign_decode : forall sa sb pa pb ws, sa <> sb ->
  dec_protocol sb pb (enc_protocol sa pa ws) = PSchemaMismatch.
Proof. exact foreign_schema_refused. Qed.
Print Assumptions C15_no_foreign_decode.

(* and its own streams are accepted *)
Theorem C15_own_stream_accepted : forall schema p ws, steps_ok p ws = true ->
  dec_protocol schema p (enc_protocol schema p ws) = POk (map sread_of ws).
Proof. exact protocol_roundtrip. Qed.
Print Assumptions C15_own_stream_accepted.

(* The header check of the generated Python reader as a reader program (BinaryProtocolReader.__init__: read_view(5),
   read(int32), string read, comparisons - tied to the code by the call traces of C01, constructor included): what it accepts
   starts with the magic bytes, a version that reads as 1, a length prefix and exactly the reader's own schema *)
Theorem C15_py_accepted_header : forall expected l r, arun_p (py_read_header expected) l = PVal tt r ->
  exists verbytes lenbytes,
    l = magic ++ verbytes ++ lenbytes ++ expected ++ r
    /\ length verbytes = 4%nat /\ le_dec verbytes = format_version
    /\ pvdec lenbytes = Some (N.of_nat (length expected), []).
Proof. exact py_header_accepted. Qed.
Print Assumptions C15_py_accepted_header.

Theorem C15_py_own_header_accepted : forall schema rest, arun_p (py_read_header schema) (enc_header schema ++ rest) = PVal tt rest.
Proof. exact py_header_own. Qed.
Print Assumptions C15_py_own_header_accepted.

(* a stream written under another schema is refused by the Python reader through its buffered stream, for every buffer size
   >= 4, before any value is read *)
Theorem C15_py_foreign_refused : forall b sa sb rest, (4 <= b)%nat -> sa <> sb ->
  mrun_p b (py_read_header sb) (pin_init (enc_header sa ++ rest)) = MBad.
Proof. exact py_header_foreign_buffered. Qed.
Print Assumptions C15_py_foreign_refused.

(* the same for the generated C++ reader (ReadHeader as a reader program, tied by the log of the instrumented coded_stream.h):
   its own header is accepted, a stream written under another schema is refused through the buffered stream for every buffer
   size, before any value is read *)
Theorem C15_cpp_own_header_accepted : forall schema rest, N.of_nat (length schema) < 2 ^ 64 ->
  arun_c (cpp_read_header schema) (enc_header schema ++ rest) = CVal tt rest.
Proof. exact cpp_header_own. Qed.
Print Assumptions C15_cpp_own_header_accepted.

Theorem C15_cpp_foreign_refused : forall b sa sb rest, (0 < b)%nat -> sa <> sb -> N.of_nat (length sa) < 2 ^ 64 ->
  mrun_c b (cpp_read_header sb) (cin_init (enc_header sa ++ rest)) = CMBad.
Proof. exact cpp_header_foreign_buffered. Qed.
Print Assumptions C15_cpp_foreign_refused.

(* the constants of the model (varint byte budgets, magic bytes, format version, nesting limit, default
   buffer size >= 10) are those of the current sources (Gen/Tables.v is regenerated from /repo on every run) *)
From YV Require Import Proofs.GenTie.
Theorem C15_constants_are_the_sources : constants_statement.
Proof. exact constants_agree. Qed.
Print Assumptions C15_constants_are_the_sources.
