(* C13 — alternative spellings of a model are the same model. *)
From Coq Require Import List NArith Bool String.
From YV Require Import Model.Binary Gen.Tables Proofs.SpellingProofs Model.TypeSyntax Proofs.TypeSyntaxProofs.
Import ListNotations.

(* the alias table of the CURRENT front end (what it resolves each candidate name to, observed on every run): alias names
   are distinct from each other and from the primitive names, so a name denotes one primitive only *)
Theorem C13_alias_names_unambiguous : NoDup (map fst prim_aliases ++ prim_names).
Proof. exact alias_names_unambiguous. Qed.
Print Assumptions C13_alias_names_unambiguous.

(* every primitive alias means, to the current front end (observed on a probe model on every run), what the documentation
   says it means - and there is no alias the documentation does not list *)
Theorem C13_aliases_are_the_documented_ones : same_alias_table prim_aliases doc_aliases = true.
Proof. exact observed_aliases_are_documented. Qed.
Print Assumptions C13_aliases_are_the_documented_ones.

(* the expanded spelling of every type expression (any nesting of name<args>, ?, *n, [dims], ->) is given the same type
   as its short spelling by the front end (Model.TypeSyntax: convertType / applyTypeTail / itemCases and Unmarshal*YAML,
   compared with the real front end through the verif hook on every run) *)
Theorem C13_expanded_spelling_same_type : forall s, conv_expanded (expand s) = conv_short s.
Proof. exact expanded_spelling_same_type. Qed.
Print Assumptions C13_expanded_spelling_same_type.

(* an optional inside a container is the container's cases in both spellings *)
Theorem C13_example :
  conv_short (SVecT None (SOptT (SName [105] []))) = GGen [None; Some (GSimple [105] [])] (DVec None) None
  /\ conv_short (SOptT (SOptT (SName [105] []))) = GGen [None; Some (GGen [None; Some (GSimple [105] [])] DNone None)] DNone None.
Proof. split; reflexivity. Qed.
Print Assumptions C13_example.
