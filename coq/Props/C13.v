(* C13 — alternative spellings of a model are the same model. *)
From Coq Require Import List NArith Bool String.
From YV Require Import Model.Binary Gen.Tables Proofs.SpellingProofs.
Import ListNotations.

(* the alias table of the CURRENT sources (types.go:primitiveTypes, regenerated on every run): alias names
   are distinct from each other and from the primitive names, so a name denotes one primitive only *)
Theorem C13_alias_names_unambiguous : NoDup (map fst prim_aliases ++ prim_names).
Proof. exact alias_names_unambiguous. Qed.
Print Assumptions C13_alias_names_unambiguous.
