(* C08 — every accepted package yields well-formed code for every target and option set.
   What is PROVED here is the naming and ordering logic; that the generated trees compile and import for every option
   set is explored by the harness with the real compilers (harness/checks/c08.py) and is not a theorem.
   Gen.Naming (reserved words, suffixes, which spelling is tested) is regenerated from internal/*/common/common.go. *)
From Coq Require Import List String Bool.
From YV Require Import Base.Wire Model.Binary Model.Json Model.Schema Model.Naming Gen.Naming Proofs.NamingProofs.
Import ListNotations.
Open Scope string_scope.

(* an escaped identifier is never a reserved word of its target language, whatever the casing function returns -
   given the table obligation, which is discharged below for every table of the current sources *)
Theorem C08_escaped_names_are_not_reserved :
  forall casing reserved suffix, suffix_leaves_reserved reserved suffix = true ->
    forall name, smem (escape casing reserved suffix true name) reserved = false.
Proof. exact escape_not_reserved. Qed.
Print Assumptions C08_escaped_names_are_not_reserved.

Theorem C08_table_obligations :
  suffix_leaves_reserved cpp_reserved cpp_field_suffix = true /\ suffix_leaves_reserved cpp_reserved cpp_computed_suffix = true
  /\ suffix_leaves_reserved cpp_reserved cpp_enum_value_suffix = true /\ suffix_leaves_reserved cpp_reserved cpp_type_suffix = true
  /\ suffix_leaves_reserved python_reserved python_field_suffix = true /\ suffix_leaves_reserved python_reserved python_computed_suffix = true
  /\ suffix_leaves_reserved python_reserved python_enum_value_suffix = true /\ suffix_leaves_reserved python_reserved python_type_suffix = true
  /\ suffix_leaves_reserved matlab_reserved matlab_field_suffix = true /\ suffix_leaves_reserved matlab_reserved matlab_enum_value_suffix = true
  /\ suffix_leaves_reserved matlab_reserved matlab_type_suffix = true.
Proof. vm_compute. repeat split. Qed.
Print Assumptions C08_table_obligations.

(* every generator tests the spelling it emits - except MATLAB computed fields (tests the model's spelling): recorded *)
Theorem C08_reserved_test_is_on_the_emitted_spelling :
  cpp_field_checks_cased = true /\ cpp_computed_checks_cased = true /\ cpp_enum_value_checks_cased = true /\ cpp_type_checks_cased = true
  /\ python_field_checks_cased = true /\ python_computed_checks_cased = true /\ python_enum_value_checks_cased = true
  /\ python_type_checks_cased = true /\ matlab_field_checks_cased = true /\ matlab_enum_value_checks_cased = true
  /\ matlab_type_checks_cased = true.
Proof. vm_compute. repeat split. Qed.
Print Assumptions C08_reserved_test_is_on_the_emitted_spelling.

(* escaping adds no collisions of its own when no cased name is "reserved word + suffix" (Python, MATLAB: the casing
   functions never end a name with "_" - observed through the hook) *)
Theorem C08_escaping_adds_no_collisions :
  forall casing reserved suffix,
    (forall s w, In w reserved -> casing s <> w ++ suffix) ->
    forall a b, escape casing reserved suffix true a = escape casing reserved suffix true b -> casing a = casing b.
Proof. exact escape_collisions_are_casing_collisions. Qed.
Print Assumptions C08_escaping_adds_no_collisions.

(* REFUTED for C++ fields (suffix "_field"): the distinct field names "class" and "classField" of one record get the same
   C++ member name, for any casing function that maps them as the real ToSnakeCase does (known finding) *)
Theorem C08_cpp_field_collision_refuted :
  forall casing, casing "class" = "class" -> casing "classField" = "class_field" ->
    escape casing cpp_reserved cpp_field_suffix true "class" = escape casing cpp_reserved cpp_field_suffix true "classField".
Proof. intros casing H1 H2. unfold escape. rewrite H1, H2. vm_compute. reflexivity. Qed.
Print Assumptions C08_cpp_field_collision_refuted.

(* the order checker the harness evaluates on the environment yardl emits (model.json) is sound: if it answers true,
   every definition comes after the definitions of its own namespace that it uses *)
Theorem C08_order_checker_sound :
  forall env, env_ordered env = true ->
    forall pre d post, map f_def env = (pre ++ d :: post)%list ->
    forall n, In n (def_refs d) -> In n (map d_name (map f_def env)) -> same_ns n (d_name d) = true ->
      In n (map d_name pre).
Proof. exact env_ordered_sound. Qed.
Print Assumptions C08_order_checker_sound.
