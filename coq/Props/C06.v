(* C06 — schema-evolution verdicts are total, reflexive and match the documented classes.
   Model.Evolution is a reading of compareTypes / detect*Changes / validateChanges on expanded types (aliases and generic
   instantiations resolved away by the harness from yardl's own model.json); its verdict is compared with the real
   `yardl validate` on every run.  GetPrimitiveKind is Gen.Tables.prim_kind, regenerated from the sources.
   Totality and determinism of the model are those of a Gallina function; for the implementation they are explored by the
   harness (every pair of individually valid models must yield a verdict, twice the same). *)
From Coq Require Import List NArith ZArith Bool.
From YV Require Import Base.Wire Model.Binary Gen.Tables Model.Json Model.Schema Model.Evolution Proofs.EvolutionProofs.
Import ListNotations.
Open Scope N_scope.

(* a well-formed type is unchanged with respect to itself, whatever renames are declared *)
Theorem C06_type_compared_with_itself :
  forall rn f t, ewf f t = true -> cmp rn f t t = K0.
Proof. exact cmp_refl. Qed.
Print Assumptions C06_type_compared_with_itself.

(* a well-formed model is compatible with itself: no error, no warning *)
Theorem C06_model_compatible_with_itself :
  forall rn f e, env_wf f e = true -> env_verdict f rn e e = VOk.
Proof. exact env_verdict_refl. Qed.
Print Assumptions C06_model_compatible_with_itself.

(* the classes of primitive changes, for the GetPrimitiveKind table of the CURRENT sources: numbers convert to numbers and
   to/from strings with a warning, complex to complex with a warning, everything else is an error *)
Theorem C06_primitive_changes :
  cmp_prim PInt32 PInt32 = K0 /\ cmp_prim PInt64 PInt32 = KW /\ cmp_prim PFloat32 PUint8 = KW /\ cmp_prim PString PInt32 = KW
  /\ cmp_prim PInt32 PString = KW /\ cmp_prim PCFloat64 PCFloat32 = KW /\ cmp_prim PBool PInt32 = KE /\ cmp_prim PInt32 PBool = KE
  /\ cmp_prim PDate PString = KE /\ cmp_prim PFloat32 PCFloat32 = KE /\ cmp_prim PDateTime PDate = KE /\ cmp_prim PSize PUint64 = KW.
Proof. vm_compute. repeat split. Qed.
Print Assumptions C06_primitive_changes.

(* the documented classes on small instances: compatible, partially compatible (warning), breaking (error) *)
Definition r (fields : list (str * ety)) : ety := ERec [82] fields.
Definition p1 (t : ety) : eenv := {| e_defs := []; e_protos := [([80], [([115], false, t)])] |}.
Theorem C06_documented_classes :
  (* optional field added / removed, fields reordered: compatible *)
  env_verdict 9 [] (p1 (r [([97], EPrim PInt32); ([110], EOpt (EPrim PString))])) (p1 (r [([97], EPrim PInt32)])) = VOk
  /\ env_verdict 9 [] (p1 (r [([98], EPrim PString); ([97], EPrim PInt32)])) (p1 (r [([97], EPrim PInt32); ([98], EPrim PString)])) = VOk
  (* required field added, field made optional, number changed, union grown: warning *)
  /\ env_verdict 9 [] (p1 (r [([97], EPrim PInt32); ([110], EPrim PString)])) (p1 (r [([97], EPrim PInt32)])) = VWarn
  /\ env_verdict 9 [] (p1 (r [([97], EOpt (EPrim PInt32))])) (p1 (r [([97], EPrim PInt32)])) = VWarn
  /\ env_verdict 9 [] (p1 (EPrim PInt64)) (p1 (EPrim PInt32)) = VWarn
  /\ env_verdict 9 [] (p1 (EUnion false [EPrim PInt32; EPrim PString; EPrim PFloat32])) (p1 (EUnion false [EPrim PInt32; EPrim PString])) = VWarn
  (* scalar to vector, enum value changed, step removed, record renamed without alias: error; renamed with alias: fine *)
  /\ env_verdict 9 [] (p1 (EVec None (EPrim PInt32))) (p1 (EPrim PInt32)) = VErr
  /\ env_verdict 9 [] (p1 (EEnum [69] false PInt32 [([97], 1%Z)])) (p1 (EEnum [69] false PInt32 [([97], 2%Z)])) = VErr
  /\ env_verdict 9 [] {| e_defs := []; e_protos := [([80], [])] |} (p1 (EPrim PInt32)) = VErr
  /\ env_verdict 9 [] (p1 (ERec [78] [([97], EPrim PInt32)])) (p1 (r [([97], EPrim PInt32)])) = VErr
  /\ env_verdict 9 [([82], [78])] (p1 (ERec [78] [([97], EPrim PInt32)])) (p1 (r [([97], EPrim PInt32)])) = VOk.
Proof. vm_compute. repeat split. Qed.
Print Assumptions C06_documented_classes.

(* the hypotheses of the reflexivity theorems are satisfiable *)
Theorem C06_hypotheses_satisfiable :
  env_wf 9 (p1 (EUnion true [r [([97], EPrim PInt32); ([98], EVec (Some 3) (EEnum [69] true PUint8 [([120], 1%Z); ([121], 2%Z)]))];
                             EMap (EPrim PString) (EOpt (EPrim PFloat64))])) = true.
Proof. vm_compute. reflexivity. Qed.
Print Assumptions C06_hypotheses_satisfiable.
