(* C16 — a truncated stream is reported, never mistaken for a complete one.
   Property theorems only; each is closed by [exact] of a lemma proved elsewhere. *)
From Coq Require Import List NArith.
From YV Require Import Base.Wire Model.CodedCpp Proofs.CodedCppIn Proofs.Truncation Model.CodedPy Proofs.CodedPyIn.
From YV Require Import Model.Binary Model.CppLayout Model.CppTyped Proofs.CppTypedProofs Model.CppReadProg Model.CppTypedRead
  Model.PyTyped Model.PyReadProg Model.PyTypedRead Proofs.TypedTruncation.
From YV Require Import Model.Json Proofs.JsonTruncation.
Import ListNotations.

(* The buffered C++ reader of coded_stream.h returns, for EVERY buffer size, input and script,
   exactly what the buffer-less byte-list reader returns (values, end-of-stream, not-finished). *)
Theorem C16_cpp_reader_refines : forall bufsize input ops, (0 < bufsize)%nat ->
  no_malformed input ops -> rrun bufsize (cin_init input) ops = arun input ops.
Proof. exact cpp_reader_refines. Qed.
Print Assumptions C16_cpp_reader_refines.

(* Cut anywhere: a prefix of the written values, then EndOfStream - never a normal completion,
   never a stale byte - for every buffer size. *)
Theorem C16_cpp_truncated : forall bufsize ops data vs p q, (0 < bufsize)%nat ->
  Forall (fun op => op <> RVerify) ops ->
  aexact data ops = Some vs -> data = p ++ q -> q <> [] ->
  exists k, (k <= length vs)%nat /\
            rrun bufsize (cin_init p) ops = map Ok (firstn k vs) ++ [Eof].
Proof. exact cpp_truncated. Qed.
Print Assumptions C16_cpp_truncated.

Theorem C16_cpp_complete : forall bufsize ops data vs, (0 < bufsize)%nat ->
  aexact data ops = Some vs ->
  rrun bufsize (cin_init data) (ops ++ [RVerify]) = map Ok vs ++ [Ok VUnit].
Proof. exact cpp_complete. Qed.
Print Assumptions C16_cpp_complete.

(* non-vacuity: a concrete script with a value straddling a 4-byte buffer *)
Example C16_hyp_sat :
  aexact [5; 172; 2; 1; 0; 0; 0; 9; 8; 7] [RByte; RVar 32; RFixed 4; RBytes 3]
  = Some [VNum 5; VNum 300; VNum 1; VBytes [9; 8; 7]].
Proof. vm_compute. reflexivity. Qed.
Print Assumptions C16_hyp_sat.

(* The buffered Python reader of _binary.py (CodedInputStream), for EVERY buffer size, input and script: the values it
   returns are those of the buffer-less byte-list reader, and where that reader runs out of input it raises
   (EOFError, or the BufferError that _fill_buffer's slice assignment raises in its place). *)
Theorem C16_py_reader_refines : forall bufsize input ops, (0 < bufsize)%nat -> Forall (pop_ok bufsize) ops ->
  map pnorm (prun bufsize (pin_init input) ops) = parun input ops.
Proof. exact py_reader_refines. Qed.
Print Assumptions C16_py_reader_refines.

Theorem C16_py_truncated : forall bufsize ops data vs p q, (0 < bufsize)%nat -> Forall (pop_ok bufsize) ops ->
  paexact data ops = Some vs -> data = p ++ q -> q <> [] ->
  exists k, (k <= length vs)%nat /\
            map pnorm (prun bufsize (pin_init p) ops) = map PyOk (firstn k vs) ++ [PyEof].
Proof. exact py_truncated. Qed.
Print Assumptions C16_py_truncated.

Theorem C16_py_complete : forall bufsize ops data vs, (0 < bufsize)%nat -> Forall (pop_ok bufsize) ops ->
  paexact data ops = Some vs -> prun bufsize (pin_init data) ops = map PyOk vs.
Proof. exact py_complete. Qed.
Print Assumptions C16_py_complete.

(* no stale byte of the bytearray is ever returned, the varint loop terminates *)
Theorem C16_py_outcomes : forall bufsize input ops, (0 < bufsize)%nat -> Forall (pop_ok bufsize) ops ->
  Forall (fun r => match r with PyOk _ | PyEof | PyFault BufferErr => True | _ => False end)
         (prun bufsize (pin_init input) ops).
Proof. exact py_reader_outcomes. Qed.
Print Assumptions C16_py_outcomes.

(* non-vacuity, and the quirk is real: 7 bytes, buffer of 10, two read_byte then an 8-byte read *)
Example C16_py_hyp_sat :
  paexact [5; 172; 2; 1; 0; 0; 0; 9; 8; 7] [PByte; PVar; PFixed 4; PBytes 3]
  = Some [VNum 5; VNum 300; VNum 1; VBytes [9; 8; 7]].
Proof. vm_compute. reflexivity. Qed.
Print Assumptions C16_py_hyp_sat.
Example C16_py_buffer_error_witness :
  prun 10 (pin_init [1; 2; 3; 4; 5; 6; 7]) [PByte; PByte; PFixed 8] = [PyOk (VNum 1); PyOk (VNum 2); PyFault BufferErr].
Proof. vm_compute. reflexivity. Qed.
Print Assumptions C16_py_buffer_error_witness.

(* At the level of the TYPED readers (the reader programs of Model.PyTypedRead / Model.CppTypedRead, tied to the generated code
   by call traces): cut the encoding of ANY well-typed value of ANY type anywhere, and the reader over its buffered stream,
   for every buffer size, ends with the end-of-stream exception - it never returns a value and never reads a stale byte. *)
Theorem C16_py_typed_truncated : forall b t v pre q, (16 <= b)%nat -> has_type t v = true -> enc_py t v = pre ++ q -> q <> [] ->
  mrun_p b (py_read t) (pin_init pre) = MEnd PyEof \/ mrun_p b (py_read t) (pin_init pre) = MEnd (PyFault BufferErr).
Proof. exact py_typed_truncated_buffered. Qed.
Print Assumptions C16_py_typed_truncated.

Theorem C16_cpp_typed_truncated : forall b t v pre q, (0 < b)%nat -> has_type t v = true -> vsmall v = true ->
  enc t v = pre ++ q -> q <> [] -> mrun_c b (cpp_read t) (cin_init pre) = CMStop Eof.
Proof. exact cpp_typed_truncated_buffered. Qed.
Print Assumptions C16_cpp_typed_truncated.

(* the constants of the model (varint byte budgets, magic bytes, format version, nesting limit, default
   buffer size >= 10) are those of the current sources (Gen/Tables.v is regenerated from /repo on every run) *)
From YV Require Import Proofs.GenTie.
(* NDJSON has no end marker, so the tail of trailing streams can be lost unnoticed; but every step that is not a stream has exactly
   one line, and when the lines kept after a cut contain none of its name the line reader cannot complete, whatever else is there
   (tie: `ndjson_cuts` of the C16 check cuts real NDJSON streams at every line boundary and gives them to the generated Python reader) *)
Theorem C16_ndjson_lost_value_step_refused : forall p ws kept dropped name t,
  write_lines p ws = kept ++ dropped -> In (name, false, t) p -> ~ In name (map fst kept) ->
  read_lines p (None, kept) = None.
Proof. exact cut_losing_a_value_step_is_refused. Qed.
Print Assumptions C16_ndjson_lost_value_step_refused.

Example C16_ndjson_hyp_sat :
  let p := [([104], false, JTPrim PInt32); ([115], true, JTPrim PInt32); ([99], false, JTOpt (JTPrim PString))] in
  let ws := [JWVal (VInt 5); JWItems [VInt 1; VInt 2]; JWVal VNone] in
  write_lines p ws = firstn 3 (write_lines p ws) ++ skipn 3 (write_lines p ws)
  /\ ~ In [99] (map fst (firstn 3 (write_lines p ws)))
  /\ read_lines p (None, firstn 3 (write_lines p ws)) = None
  /\ exists st, read_lines p (None, write_lines p ws) = Some (ws, st).
Proof.
  cbv zeta. split; [symmetry; apply firstn_skipn|]. split; [vm_compute; intros [H|[H|[H|[]]]]; discriminate|].
  split; [vm_compute; reflexivity|]. eexists. vm_compute. reflexivity.
Qed.
Print Assumptions C16_ndjson_hyp_sat.

Theorem C16_constants_are_the_sources : constants_statement.
Proof. exact constants_agree. Qed.
Print Assumptions C16_constants_are_the_sources.

(* value level, every type: cutting an item anywhere before its last byte leaves bytes that do not decode at its type, so a
   truncated item is never mistaken for a shorter complete one (from the round trip and the extension property of dec) *)
From YV Require Import Proofs.BinaryProofs Proofs.BinaryInjective.
Theorem C16_item_cut_anywhere_undecodable : forall t v p q,
  has_type t v = true -> enc t v = p ++ q -> q <> [] -> dec t p = None.
Proof. exact enc_strict_prefix_undecodable. Qed.
Print Assumptions C16_item_cut_anywhere_undecodable.
