(* C17 — stream contents do not depend on batching, and items are independent. *)
From Coq Require Import List NArith ZArith.
From YV Require Import Base.Wire Model.Binary Model.Batch Model.InPlace.
From YV Require Import Proofs.ProtocolProofs Proofs.BatchProofs Proofs.InPlaceProofs.
From YV Require Import Model.CodedCpp Model.CodedPy Model.PyTyped Proofs.PyTypedProofs Model.PyReadProg Model.PyTypedRead Proofs.PyTypedReadProofs.
From YV Require Import Model.Fallback Proofs.FallbackProofs.
From YV Require Import Model.CppLayout Model.CppTyped Proofs.CppTypedProofs Model.CppReadProg Model.CppTypedRead Proofs.CppTypedReadProofs.
Import ListNotations.
Open Scope N_scope.

(* however the items were grouped into write calls (any block partition, empty batches included),
   the reader yields the same values *)
Theorem C17_write_grouping : forall schema p ws1 ws2,
  steps_ok p ws1 = true -> steps_ok p ws2 = true -> map sread_of ws1 = map sread_of ws2 ->
  dec_protocol schema p (enc_protocol schema p ws1) = dec_protocol schema p (enc_protocol schema p ws2).
Proof. exact grouping_irrelevant. Qed.
Print Assumptions C17_write_grouping.

(* the C++ single-item reader (ReadBlock with current_block_remaining_ carried across calls) *)
Theorem C17_read_single : forall t bs r, forallb (forallb (has_type t)) bs = true ->
  read_items (dec t) (S (S (length (concat bs)))) 0
    (concat (map (enc_block t) (filter nonempty bs)) ++ 0 :: r) = Some (concat bs, r).
Proof. exact read_items_any_partition. Qed.
Print Assumptions C17_read_single.

(* the C++ batch reader (ReadBlocksIntoVector + the ReaderBase state 3 hand-shake) for EVERY
   capacity and EVERY block partition: batches are non-empty, within capacity, and concatenate to
   the items written; the input is left exactly after the end marker *)
Theorem C17_read_batching : forall t bs r cap, forallb (forallb (has_type t)) bs = true -> 0 < cap ->
  exists batches,
    read_batches (dec t) (S (S (length (concat bs)))) 0 cap
      (concat (map (enc_block t) (filter nonempty bs)) ++ 0 :: r) = Some (batches, r)
    /\ concat batches = concat bs
    /\ Forall (fun b => b <> [] /\ (length b <= N.to_nat cap)%nat) batches.
Proof. exact read_batches_any_capacity. Qed.
Print Assumptions C17_read_batching.

(* decoding into a destination that holds an earlier item gives the same value as decoding into a
   fresh one, for every type (maps: the destination is cleared; optionals and unions: temporaries) *)
Theorem C17_item_independent : forall t old l, read_into t old l = dec t l.
Proof. exact read_into_indep. Qed.
Print Assumptions C17_item_independent.

Theorem C17_stream_reusing_destination : forall fuel t cbr old l,
  read_stream_reusing fuel t cbr old l = read_items (dec t) fuel cbr l.
Proof. exact read_stream_reusing_eq. Qed.
Print Assumptions C17_stream_reusing_destination.

(* generated Python: a stream step written in ANY grouping of lists and iterables (empty ones included) - the calls of
   Model.PyTyped.py_stream_ops - is read back by the reader program of Model.PyTypedRead (blocks as they come, any number of
   them) as the items in their order: the grouping is not observable.  Both models are tied to the code by the call traces
   of C01. *)
Theorem C17_py_stream_any_grouping : forall t bs fuel rest,
  forallb (fun b => forallb (has_type t) (batch_items b)) bs = true -> (length (blocks_of bs) < fuel)%nat ->
  arun_p (py_read_stream fuel t) (obytes (py_stream_ops t bs) ++ rest) = PVal (concat (map batch_items bs)) rest.
Proof. exact py_stream_any_grouping. Qed.
Print Assumptions C17_py_stream_any_grouping.

(* generated C++: a stream step copied with ANY batch capacity (WriteBlock per item, or WriteVector per chunk with its memcpy
   fast path) is read back item by item as the items in their order *)
Theorem C17_cpp_stream_any_batch : forall t batch items fuel rest,
  forallb (has_type t) items = true -> forallb vsmall items = true -> N.of_nat (length items) < 2 ^ 64 ->
  (length items < fuel)%nat ->
  arun_c (cpp_read_stream fuel t) (cbytes (cpp_stream_ops t batch items) ++ rest) = CVal items rest.
Proof. exact cpp_stream_any_batch. Qed.
Print Assumptions C17_cpp_stream_any_batch.

(* readers without a batch method of their own (the generated C++ NDJSON reader, hand-written readers) go through the fallback
   Read<Step>Impl(std::vector&) that yardl writes into protocols.cc: one batch read into a vector of ANY previous contents and any
   capacity > 0 yields the next min(capacity, remaining) items in order and `true` iff the vector could be filled ... *)
Theorem C17_cpp_fallback_batch : forall (A : Type) (dflt : A) (src vals : list A) (cap : nat),
  (0 < cap)%nat -> (length vals <= cap)%nat ->
  fb dflt src vals cap 0 =
    if (cap <=? length src)%nat then (true, firstn cap src, skipn cap src) else (false, src, []).
Proof. exact fallback_batch. Qed.
Print Assumptions C17_cpp_fallback_batch.

(* ... so the documented read loop / CopyTo with ONE reused vector delivers exactly the items of the stream for every capacity
   (tie: the C17 check reads NDJSON streams through generated C++ with capacities 1, 2, 3, 7 on every run) *)
Theorem C17_cpp_fallback_any_capacity : forall (A : Type) (dflt : A) fuel (src vals : list A) (cap : nat),
  (0 < cap)%nat -> (length vals <= cap)%nat -> (length src < fuel)%nat ->
  drain (fb dflt) fuel src vals cap = src.
Proof. exact fallback_drain. Qed.
Print Assumptions C17_cpp_fallback_any_capacity.

(* `values.pop_back()` in place of `values.resize(i)` at the end of the stream (seeded change C17-4): 4 items read with capacity 3
   deliver a stale fifth item *)
Theorem C17_cpp_fallback_popback_refuted :
  drain (fb_popback 0%nat) 10 [1; 2; 3; 4]%nat [] 3 = [1; 2; 3; 4; 2]%nat /\ drain (fb 0%nat) 10 [1; 2; 3; 4]%nat [] 3 = [1; 2; 3; 4]%nat.
Proof. exact fallback_popback_refuted. Qed.
Print Assumptions C17_cpp_fallback_popback_refuted.

(* byte level: the bytes of a run of items written back to back determine the items - no item's bytes depend on, or can be
   re-split into, its neighbours' (the encoder is prefix-free for every type) *)
From YV Require Import Proofs.BinaryProofs Proofs.BinaryInjective.
Theorem C17_item_bytes_self_delimiting : forall t xs ys,
  forallb (has_type t) xs = true -> forallb (has_type t) ys = true -> length xs = length ys ->
  concat (map (enc t) xs) = concat (map (enc t) ys) -> xs = ys.
Proof. exact enc_items_inj. Qed.
Print Assumptions C17_item_bytes_self_delimiting.

Example C17_hyp_sat :
  forallb (forallb (has_type (TMap (TPrim PString) (TPrim PInt32))))
    [[VMapv [(VStr [97], VInt 1)]]; []; [VMapv [(VStr [98], VInt 2)]; VMapv []]] = true.
Proof. vm_compute. reflexivity. Qed.
Print Assumptions C17_hyp_sat.
