(* C01 — binary write/read round trip and wire-format conformance. Property theorems only. *)
From Coq Require Import List NArith ZArith Lia.
From YV Require Import Base.Wire Model.CodedCpp Model.Binary.
From YV Require Import Proofs.BinaryProofs Proofs.ProtocolProofs Proofs.CodedCppOut Proofs.CodedCppIn Proofs.Truncation.
From YV Require Import Proofs.CodedCppRoundtrip Model.CppLayout Model.CppTyped Proofs.CppTypedProofs
  Model.CppReadProg Proofs.CppReadProofs Model.CppTypedRead Proofs.CppTypedReadProofs.
From YV Require Import Model.CodedPy Proofs.CodedPyIn Proofs.CodedPyOut Proofs.CodedPyRoundtrip Model.PyTyped Proofs.PyTypedProofs
  Model.PyReadProg Proofs.PyReadProofs Model.PyTypedRead Proofs.PyTypedReadProofs.
Import ListNotations.

(* every type constructor, every well-typed value, any following bytes *)
Theorem C01_roundtrip : forall t v rest, has_type t v = true -> dec t (enc t v ++ rest) = Some (v, rest).
Proof. exact dec_enc. Qed.
Print Assumptions C01_roundtrip.

(* header + all steps; streams in ANY block partition (incl. empty batches, empty streams);
   the reader consumes the stream exactly *)
Theorem C01_protocol_roundtrip : forall schema p ws, steps_ok p ws = true ->
  dec_protocol schema p (enc_protocol schema p ws) = POk (map sread_of ws).
Proof. exact protocol_roundtrip. Qed.
Print Assumptions C01_protocol_roundtrip.

(* the buffered C++ writer emits exactly the bytes its operations denote, for every buffer size >= 10
   (values straddling the staging buffer included) and never stores outside the buffer *)
Theorem C01_cpp_writer_refines : forall bufsize ops, (10 <= bufsize)%nat -> Forall (wop_ok bufsize) ops ->
  exists ch, wfinish bufsize ops = Ok ch /\ concat ch = concat (map wbytes ops).
Proof. exact cpp_writer_refines. Qed.
Print Assumptions C01_cpp_writer_refines.

(* the buffered C++ reader returns what the unbuffered reader returns, for every buffer size *)
Theorem C01_cpp_reader_complete : forall bufsize ops data vs, (0 < bufsize)%nat ->
  aexact data ops = Some vs ->
  rrun bufsize (cin_init data) (ops ++ [RVerify]) = map Ok vs ++ [Ok VUnit].
Proof. exact cpp_complete. Qed.
Print Assumptions C01_cpp_reader_complete.

(* C++ coded streams end to end: written with any buffer size >= 10, read back with any buffer size > 0, VerifyFinished succeeds *)
Theorem C01_cpp_stream_roundtrip : forall b1 b2 ops, (10 <= b1)%nat -> (0 < b2)%nat ->
  Forall (wop_ok b1) ops -> Forall wop_rt ops ->
  exists chunks, wfinish b1 ops = Ok chunks /\
                 rrun b2 (cin_init (concat chunks)) (creads_of ops ++ [RVerify]) = map Ok (cvalues_of ops) ++ [Ok VUnit].
Proof. exact cpp_stream_roundtrip. Qed.
Print Assumptions C01_cpp_stream_roundtrip.

(* The typed layer of the generated C++ writers as a program over the coded stream (Model.CppTyped.cpp_wops: the calls
   serializers.h and the generated Write functions make, memcpy fast paths included - compared call by call with the log of an
   instrumented coded_stream.h on every run): the bytes the calls denote are the encoding of the value ... *)
Theorem C01_cpp_typed_calls_denote_encoding : forall t v, has_type t v = true -> vsmall v = true ->
  concat (map wbytes (cpp_wops t v)) = enc t v.
Proof. exact cpp_wops_bytes. Qed.
Print Assumptions C01_cpp_typed_calls_denote_encoding.

(* ... so, through CodedOutputStream with ANY buffer size >= 10, what reaches the ostream is that encoding *)
Theorem C01_cpp_typed_writer_bytes : forall bufsize t v, (10 <= bufsize)%nat -> has_type t v = true -> vsmall v = true ->
  exists chunks, wfinish bufsize (cpp_wops t v) = Ok chunks /\ concat chunks = enc t v.
Proof. exact cpp_typed_writer_bytes. Qed.
Print Assumptions C01_cpp_typed_writer_bytes.

(* reader programs behave over the buffered C++ stream exactly as over the byte list, for every program and buffer size
   (malformed varints excepted: shifting past the accumulator is undefined behaviour in C++) *)
Theorem C01_cpp_reader_programs_refine : forall A bufsize (p : cprog A) s, (0 < bufsize)%nat -> Inv bufsize s ->
  match arun_c p (pending s) with
  | CVal a r => exists s', mrun_c bufsize p s = CMVal a s' /\ Inv bufsize s' /\ pending s' = r
  | CEnd => mrun_c bufsize p s = CMStop Eof
  | CBad => mrun_c bufsize p s = CMBad
  | CMalformed => True
  | CNotFinished => mrun_c bufsize p s = CMStop (Fault NotFinished)
  end.
Proof. exact cprog_refines. Qed.
Print Assumptions C01_cpp_reader_programs_refine.

(* the typed C++ reader (Model.CppTypedRead.cpp_read: the calls serializers.h and the generated Read functions make, fast paths
   included, compared call by call and value by value with the log of the instrumented coded_stream.h on every run) reads back
   the encoding of every well-typed value *)
Theorem C01_cpp_read_roundtrip : forall t v rest, has_type t v = true -> vsmall v = true ->
  arun_c (cpp_read t) (enc t v ++ rest) = CVal v rest.
Proof. exact cpp_read_roundtrip. Qed.
Print Assumptions C01_cpp_read_roundtrip.

(* END TO END for generated C++: typed writer -> CodedOutputStream (any buffer >= 10) -> bytes -> CodedInputStream (any
   buffer > 0) -> typed reader returns exactly the value written and leaves exactly what followed it *)
Theorem C01_cpp_typed_roundtrip : forall b1 b2 t v rest, (10 <= b1)%nat -> (0 < b2)%nat -> has_type t v = true -> vsmall v = true ->
  exists chunks s', wfinish b1 (cpp_wops t v) = Ok chunks /\
                    mrun_c b2 (cpp_read t) (cin_init (concat chunks ++ rest)) = CMVal v s' /\ pending s' = rest.
Proof. exact cpp_typed_roundtrip. Qed.
Print Assumptions C01_cpp_typed_roundtrip.

(* a whole protocol in generated C++: header, every step (streams copied with any batch capacity) and nothing after -
   the reader returns the values in order and VerifyFinished succeeds *)
Theorem C01_cpp_protocol_roundtrip : forall schema steps fuel, N.of_nat (length schema) < 2 ^ 64 ->
  forallb cstep_typed steps = true -> Forall (fun s => (cstep_items s < fuel)%nat) steps ->
  arun_c (cpp_read_protocol fuel schema (map cstep_of steps)) (cbytes (cpp_protocol_ops schema steps))
  = CVal (map cresult_of steps) [].
Proof. exact cpp_protocol_roundtrip. Qed.
Print Assumptions C01_cpp_protocol_roundtrip.

(* the buffered Python writer (_binary.py CodedOutputStream) hands the underlying stream exactly the bytes its operations
   denote, for every buffer size >= 10, and the operations generated code uses never raise *)
Theorem C01_py_writer_refines : forall bufsize ops, (10 <= bufsize)%nat -> Forall (pwop_ok bufsize) ops ->
  exists chunks, pwfinish bufsize ops = PWOk chunks /\ concat chunks = concat (map pwbytes ops).
Proof. exact py_writer_refines. Qed.
Print Assumptions C01_py_writer_refines.

(* for ANY buffer size and ANY script (unguarded byte stores included): no exception => nothing lost, nothing reordered *)
Theorem C01_py_writer_no_loss : forall bufsize ops chunks, pwfinish bufsize ops = PWOk chunks ->
  concat chunks = concat (map pwbytes ops).
Proof. exact py_writer_no_loss. Qed.
Print Assumptions C01_py_writer_no_loss.

(* Python coded streams end to end: written with any buffer size >= 10, read back with any buffer size > 0 *)
Theorem C01_py_stream_roundtrip : forall b1 b2 ops, (10 <= b1)%nat -> (0 < b2)%nat ->
  Forall (pwop_ok b1) ops ->
  Forall (fun op => match op with PWFixed k _ => (k <= b2)%nat | _ => True end) ops ->
  exists chunks, pwfinish b1 ops = PWOk chunks /\
                 prun b2 (pin_init (concat chunks)) (reads_of ops) = map PyOk (values_of ops).
Proof. exact py_stream_roundtrip. Qed.
Print Assumptions C01_py_stream_roundtrip.

Example C01_py_hyp_sat :
  Forall (pwop_ok 16) [PWByte 5; PWVar 300; PWFixed 4 1; PWBytes [9; 8; 7]; PWFlush; PWDirect [1; 2]] /\
  pwfinish 16 [PWByte 5; PWVar 300; PWFixed 4 1; PWBytes [9; 8; 7]; PWFlush; PWDirect [1; 2]]
  = PWOk [[5; 172; 2; 1; 0; 0; 0; 9; 8; 7]; [1; 2]].
Proof.
  split; [|vm_compute; reflexivity].
  repeat (apply Forall_cons; [cbn; try exact I; try split; try lia; try reflexivity|]). apply Forall_nil.
Qed.
Print Assumptions C01_py_hyp_sat.

(* The typed layer of the generated Python writers as a program over the coded stream (Model.PyTyped.py_wops: the calls the
   serializer classes of _binary.py make, compared call by call with a spying stream on every run): the bytes those calls
   denote are the Python encoding of the value ... *)
Theorem C01_py_typed_calls_denote_encoding : forall t v, has_type t v = true ->
  concat (map pwbytes (py_wops t v)) = enc_py t v.
Proof. exact py_wops_bytes. Qed.
Print Assumptions C01_py_typed_calls_denote_encoding.

(* ... so, through the buffered writer and for ANY buffer size, what reaches the underlying stream is that encoding *)
Theorem C01_py_typed_writer_bytes : forall bufsize t v chunks, has_type t v = true ->
  pwfinish bufsize (py_wops t v) = PWOk chunks -> concat chunks = enc_py t v.
Proof. exact py_typed_writer_bytes. Qed.
Print Assumptions C01_py_typed_writer_bytes.

(* no serializer stores a byte it has not reserved room for *)
Theorem C01_py_typed_guarded : forall t v, forallb guarded (py_wops t v) = true.
Proof. exact py_wops_guarded. Qed.
Print Assumptions C01_py_typed_guarded.

(* a stream step written in any grouping of lists and iterables: the blocks of the groups, then the end marker *)
Theorem C01_py_stream_step_bytes : forall t bs,
  forallb (fun b => match b with BList xs | BIter xs => forallb (has_type t) xs end) bs = true ->
  concat (map pwbytes (py_stream_ops t bs)) = concat (map (py_block t) (filter nonempty (blocks_of bs))) ++ [0%N].
Proof. exact py_stream_bytes. Qed.
Print Assumptions C01_py_stream_step_bytes.

(* Reader programs (what a typed reader does: issue read operations, continue with what they return) behave over the buffered
   Python stream exactly as over the byte list, for every buffer size and every program *)
Theorem C01_py_reader_programs_refine : forall A bufsize (p : rprog A) s, (0 < bufsize)%nat -> PInv bufsize s -> prog_ok bufsize p ->
  match arun_p p (ppending s) with
  | PVal a r => exists s', mrun_p bufsize p s = MVal a s' /\ PInv bufsize s' /\ ppending s' = r
  | PEnd => mrun_p bufsize p s = MEnd PyEof \/ mrun_p bufsize p s = MEnd (PyFault BufferErr)
  | PBad => mrun_p bufsize p s = MBad
  end.
Proof. exact prog_refines. Qed.
Print Assumptions C01_py_reader_programs_refine.

(* the typed Python reader (Model.PyTypedRead.py_read: the calls the serializer classes make, compared call by call and value by
   value with a spying CodedInputStream on every run) reads back the Python encoding of every well-typed value *)
Theorem C01_py_read_roundtrip : forall t v rest, has_type t v = true ->
  arun_p (py_read t) (enc_py t v ++ rest) = PVal v rest.
Proof. exact py_read_roundtrip. Qed.
Print Assumptions C01_py_read_roundtrip.

(* END TO END for generated Python: typed writer -> CodedOutputStream (any buffer size) -> bytes -> CodedInputStream (any
   buffer size >= 16) -> typed reader returns exactly the value written and leaves exactly what followed it *)
Theorem C01_py_typed_roundtrip : forall b1 b2 t v rest chunks, (16 <= b2)%nat -> has_type t v = true ->
  pwfinish b1 (py_wops t v) = PWOk chunks ->
  exists s', mrun_p b2 (py_read t) (pin_init (concat chunks ++ rest)) = MVal v s' /\ ppending s' = rest.
Proof. exact py_typed_roundtrip. Qed.
Print Assumptions C01_py_typed_roundtrip.

(* a whole protocol: header and every step (streams written in any grouping of lists and iterables), written by the typed
   Python writer, is read back by the typed Python reader - values in order, stream items in order *)
Theorem C01_py_protocol_roundtrip : forall schema steps fuel rest,
  forallb pstep_typed steps = true -> Forall (fun s => (pstep_blocks s < fuel)%nat) steps ->
  arun_p (py_read_protocol fuel schema (map step_of steps)) (obytes (py_protocol_ops schema steps) ++ rest)
  = PVal (map result_of steps) rest.
Proof. exact py_protocol_roundtrip. Qed.
Print Assumptions C01_py_protocol_roundtrip.

(* conformance with docs/reference/binary.md: identical except for 8-bit integers ... *)
Theorem C01_doc_conformance_guarded : forall t, no_int8 t = true -> forall v, enc_doc t v = enc t v.
Proof. exact enc_doc_eq. Qed.
Print Assumptions C01_doc_conformance_guarded.

(* ... where the document (varint / zig-zag) and every backend (one raw byte) disagree *)
Theorem C01_doc_conformance_refuted_uint8 : enc_doc (TPrim PUint8) (VInt 200) <> enc (TPrim PUint8) (VInt 200).
Proof. exact enc_doc_differs_uint8. Qed.
Print Assumptions C01_doc_conformance_refuted_uint8.
Theorem C01_doc_conformance_refuted_int8 : enc_doc (TPrim PInt8) (VInt 1) <> enc (TPrim PInt8) (VInt 1).
Proof. exact enc_doc_differs_int8. Qed.
Print Assumptions C01_doc_conformance_refuted_int8.

(* the encoding is unambiguous: for every type, two well-typed values whose encodings - each followed by ANY bytes - coincide
   are the same value followed by the same bytes; so distinct values have distinct encodings (nothing is lost on the wire) and
   no encoding is a proper prefix of another (consequences of the round trip, stated about the writer alone) *)
From YV Require Import Proofs.BinaryInjective Proofs.WireCasts.
Theorem C01_encoding_unambiguous : forall t v1 v2 r1 r2,
  has_type t v1 = true -> has_type t v2 = true -> enc t v1 ++ r1 = enc t v2 ++ r2 -> v1 = v2 /\ r1 = r2.
Proof. exact enc_prefix_free. Qed.
Print Assumptions C01_encoding_unambiguous.

(* ... and at protocol level: two accepted write histories that produce the same stream deliver the same values to the reader *)
Theorem C01_stream_determines_reads : forall schema p ws1 ws2,
  steps_ok p ws1 = true -> steps_ok p ws2 = true ->
  enc_protocol schema p ws1 = enc_protocol schema p ws2 -> map sread_of ws1 = map sread_of ws2.
Proof. exact enc_protocol_inj. Qed.
Print Assumptions C01_stream_determines_reads.

(* the two's-complement views used by the fixed-width paths (C++ static_cast, struct/numpy views) are mutually inverse on the
   documented ranges at EVERY width w > 0, and a k-byte little-endian signed integer round-trips for every k >= 1 *)
Theorem C01_casts_inverse_every_width : forall w, 0 < w ->
  (forall z, in_range_s w z = true -> to_signed w (to_unsigned w z) = z) /\
  (forall n, n < 2 ^ w -> to_unsigned w (to_signed w n) = n /\ in_range_s w (to_signed w n) = true).
Proof.
  intros w Hw. split; [intros z Hz; exact (to_signed_unsigned w z Hw Hz)|].
  intros n Hn. split; [exact (to_unsigned_signed w n Hw Hn) | exact (to_signed_range w n Hw)].
Qed.
Print Assumptions C01_casts_inverse_every_width.
Theorem C01_le_signed_roundtrip : forall k z, (1 <= k)%nat -> in_range_s (8 * N.of_nat k) z = true ->
  to_signed (8 * N.of_nat k) (le_dec (le_enc k (to_unsigned (8 * N.of_nat k) z))) = z.
Proof. exact le_signed_roundtrip. Qed.
Print Assumptions C01_le_signed_roundtrip.

(* the zig-zag transforms AS THE RUNTIMES COMPUTE THEM - shifts, masks and exclusive or on W-bit words (C++ W = 32, 64; MATLAB the
   64-bit forms) and on Python's unbounded integers (Model.ZigZagBits, text-tied to coded_stream.h, _binary.py and the MATLAB coded
   streams on every run) - are the arithmetic zig-zag of the model on the whole W-bit range, for every W >= 1 *)
From YV Require Import Model.ZigZagBits Proofs.ZigZagBitsProofs.
Theorem C01_zigzag_bits_cpp_encode : forall w v, (1 <= w)%Z -> (- 2 ^ (w - 1) <= v < 2 ^ (w - 1))%Z ->
  cpp_zz_enc w v = Z.of_N (zz_enc v).
Proof. exact cpp_zz_enc_correct. Qed.
Print Assumptions C01_zigzag_bits_cpp_encode.
Theorem C01_zigzag_bits_cpp_decode : forall w (n : N), (1 <= w)%Z -> (Z.of_N n < 2 ^ w)%Z ->
  cpp_zz_dec w (Z.of_N n) = zz_dec n.
Proof. exact cpp_zz_dec_correct. Qed.
Print Assumptions C01_zigzag_bits_cpp_decode.
Theorem C01_zigzag_bits_py_encode : forall v, (- 2 ^ 63 <= v < 2 ^ 63)%Z -> py_zz_enc v = Z.of_N (zz_enc v).
Proof. exact py_zz_enc_correct. Qed.
Print Assumptions C01_zigzag_bits_py_encode.
Theorem C01_zigzag_bits_py_decode : forall n : N, py_zz_dec (Z.of_N n) = zz_dec n.
Proof. exact py_zz_dec_correct. Qed.
Print Assumptions C01_zigzag_bits_py_decode.

(* ... and the unsigned varint writers as the runtimes compute them - `static_cast<uint8_t>(value) | 0x80; value >>= 7` in C++,
   `(int_val & 0x7F) | 0x80; int_val >>= 7` in Python (Model.VarintBits, text-tied on every run) - emit venc for EVERY value *)
From YV Require Import Model.VarintBits Proofs.VarintBitsProofs.
Theorem C01_varint_bits_cpp : forall n, cpp_venc n = venc n.
Proof. exact cpp_venc_correct. Qed.
Print Assumptions C01_varint_bits_cpp.
Theorem C01_varint_bits_py : forall n, py_venc n = venc n.
Proof. exact py_venc_correct. Qed.
Print Assumptions C01_varint_bits_py.

(* the reader loop `result |= (byte & 0x7F) << shift; if byte < 0x80: return result; shift += 7` (Python, and C++ before its W-bit
   truncation) is the abstract varint decoder on every byte string, so it reads back every venc whatever follows *)
Theorem C01_varint_bits_reader : forall l, all_bytes l = true -> vdec_bits l = vdec l.
Proof. exact vdec_bits_correct. Qed.
Print Assumptions C01_varint_bits_reader.
Theorem C01_varint_bits_reader_roundtrip : forall n r, all_bytes r = true -> vdec_bits (venc n ++ r) = Some (n, r).
Proof. exact vdec_bits_venc. Qed.
Print Assumptions C01_varint_bits_reader_roundtrip.

(* composed: zig-zag by shifts and xor on a W-bit word, then the mask/or/shift varint loop, emits enc_int for every varint-encoded
   signed primitive, every machine width W >= the primitive's width (C++ widens int16 to 32 bits; Python, MATLAB use 64) and every
   in-range value *)
From YV Require Import Proofs.BitsWriteProofs.
Theorem C01_signed_write_bits_cpp : forall p w W z,
  int_width p = Some (true, w) -> 8 < w -> w <= W -> int_ok p z = true ->
  cpp_venc (Z.to_N (cpp_zz_enc (Z.of_N W) z)) = enc_int p z.
Proof. exact cpp_signed_write_bits. Qed.
Print Assumptions C01_signed_write_bits_cpp.
Theorem C01_signed_write_bits_py : forall p w z,
  int_width p = Some (true, w) -> 8 < w -> w <= 64 -> int_ok p z = true ->
  py_venc (Z.to_N (py_zz_enc z)) = enc_int p z.
Proof. exact py_signed_write_bits. Qed.
Print Assumptions C01_signed_write_bits_py.

(* non-vacuity *)
Example C01_hyp_sat :
  steps_ok [SValue (TRec [TPrim PString; TOpt (TPrim PInt32)]); SStream (TUnion true [TPrim PFloat32; TVec (TPrim PUint16)])]
           [WVal (VSeq [VStr [104; 105]; VSome (VInt (-3))]);
            WItems [[VNone; VCase 1 (VSeq [VInt 300; VInt 0])]; []; [VCase 0 (VBits 1065353216)]]] = true.
Proof. vm_compute. reflexivity. Qed.
Print Assumptions C01_hyp_sat.

(* the constants of the model (varint byte budgets, magic bytes, format version, nesting limit, default
   buffer size >= 10) are those of the current sources (Gen/Tables.v is regenerated from /repo on every run) *)
From YV Require Import Proofs.GenTie.
Theorem C01_constants_are_the_sources : constants_statement.
Proof. exact constants_agree. Qed.
Print Assumptions C01_constants_are_the_sources.
