(* C12 — output is a deterministic, idempotent function of the package. *)
From Coq Require Import List NArith Bool String Permutation.
From YV Require Import Model.Determinism Proofs.DeterminismProofs Gen.MapSites.
Import ListNotations.

(* every place where the CURRENT tooling ranges over a map (inventory regenerated with go/types on
   every run) is known to the model and follows a discipline ... *)
Theorem C12_all_sites_modelled :
  forallb (fun s => match site_discipline (fst (fst s)) (snd (fst s)) (snd s) with Some _ => true | None => false end)
          map_range_sites = true.
Proof. vm_compute. reflexivity. Qed.
Print Assumptions C12_all_sites_modelled.

(* ... that makes its observable result independent of the iteration order, all of them *)
Theorem C12_order_dependent_sites :
  filter (fun s => match site_discipline (fst (fst s)) (snd (fst s)) (snd s) with
                   | Some d => negb (order_independent d) | None => true end) map_range_sites
  = [].
Proof. vm_compute. reflexivity. Qed.
Print Assumptions C12_order_dependent_sites.

(* SortedSink / ExplicitSort: the sorted output is a function of the multiset produced, for ANY
   (unstable) sorting algorithm, because the key (file, line, column, message) is a total order *)
Theorem C12_diagnostics_order_independent : forall reported1 reported2 out1 out2 : list diag,
  Permutation reported1 reported2 ->
  Permutation out1 reported1 -> sortedb diag_le out1 = true ->
  Permutation out2 reported2 -> sortedb diag_le out2 = true ->
  out1 = out2.
Proof. exact diagnostics_order_independent. Qed.
Print Assumptions C12_diagnostics_order_independent.

Theorem C12_key_needs_message_refuted :
  exists o1 o2 : list diag, Permutation o1 o2 /\ sortedb diag_le_nomsg o1 = true /\ sortedb diag_le_nomsg o2 = true /\ o1 <> o2.
Proof. exact no_message_key_refuted. Qed.
Print Assumptions C12_key_needs_message_refuted.

(* SetBuild / AnyAll *)
Theorem C12_set_build : forall (A : Type) (l1 l2 : list A), Permutation l1 l2 -> forall x, In x l1 <-> In x l2.
Proof. exact set_build_order_independent. Qed.
Print Assumptions C12_set_build.
Theorem C12_any : forall (A : Type) (p : A -> bool) (l1 l2 : list A), Permutation l1 l2 -> existsb p l1 = existsb p l2.
Proof. exact any_order_independent. Qed.
Print Assumptions C12_any.

(* returning at the first failing entry WITHOUT sorting would depend on the order (as the `-c key=value`
   overrides did before they were sorted) *)
Theorem C12_first_error_refuted :
  exists (l1 l2 : list N), Permutation l1 l2 /\ find (fun k => N.ltb 5 k) l1 <> find (fun k => N.ltb 5 k) l2.
Proof. exact first_error_refuted. Qed.
Print Assumptions C12_first_error_refuted.

(* regenerating an unchanged package leaves every output file untouched (contents and mtimes) *)
Theorem C12_idempotent : forall now1 now2 outs fs, NoDup (map fst outs) ->
  regenerate now2 outs (regenerate now1 outs fs) = regenerate now1 outs fs.
Proof. exact regenerate_idempotent. Qed.
Print Assumptions C12_idempotent.
