(* C05 — accepted schema evolution preserves data across versions.
   Model.Convert.conv is the documented conversion of a value between two versions of a type; the C++ code yardl generates
   for a chain of versions is compared with it on every run, in both directions (harness/checks/c05.py), the streams being
   decoded by the codec model of C01. *)
From Coq Require Import List NArith ZArith Bool.
From YV Require Import Base.Wire Model.Binary Gen.Tables Model.Json Model.Schema Model.Evolution Model.Convert
  Proofs.BinaryProofs Proofs.ConvertProofs.
Import ListNotations.
Open Scope N_scope.

(* unchanged parts are kept exactly: converting between a type and itself returns the value, for every type and value *)
Theorem C05_unchanged_parts_exactly :
  forall rn f t v, vwf rn f t v = true -> conv rn f t t v = Some v.
Proof. exact conv_identity. Qed.
Print Assumptions C05_unchanged_parts_exactly.

(* a converted value that is well typed for the destination is written and read back exactly by the destination's codec:
   the previous version's reader gets the corresponding values *)
Theorem C05_converted_values_survive_the_codec :
  forall rn f src dst v w rest, conv rn f src dst v = Some w -> has_type (ety_ty f dst) w = true ->
    dec (ety_ty f dst) (enc (ety_ty f dst) w ++ rest) = Some (w, rest).
Proof. intros rn f src dst v w rest _ H. apply dec_enc, H. Qed.
Print Assumptions C05_converted_values_survive_the_codec.

(* the documented conversions on instances: removed dropped, added defaulted (optional: null, required: zero), reordered,
   integer widened; scalar <-> optional; scalar <-> union; optional <-> union with the error the warning announces *)
Definition r0 : ety := ERec [82] [([97], EPrim PInt32); ([98], EPrim PString); ([103], EPrim PInt16)].
Definition r1 : ety := ERec [82] [([98], EPrim PString); ([97], EPrim PInt64); ([110], EOpt (EPrim PString)); ([113], EPrim PInt32)].
Theorem C05_documented_conversions :
  conv [] 9 r0 r1 (VSeq [VInt 5; VStr [104]; VInt 7]) = Some (VSeq [VStr [104]; VInt 5; VNone; VInt 0])
  /\ conv [] 9 r1 r0 (VSeq [VStr [104]; VInt 5; VSome (VStr [120]); VInt 9]) = Some (VSeq [VInt 5; VStr [104]; VInt 0])
  /\ conv [] 9 (EPrim PInt32) (EOpt (EPrim PInt32)) (VInt 3) = Some (VSome (VInt 3))
  /\ conv [] 9 (EOpt (EPrim PString)) (EPrim PString) VNone = Some (VStr [])
  /\ conv [] 9 (EPrim PInt32) (EUnion false [EPrim PString; EPrim PInt32]) (VInt 3) = Some (VCase 1 (VInt 3))
  /\ conv [] 9 (EUnion false [EPrim PInt32; EPrim PString]) (EPrim PInt32) (VCase 1 (VStr [120])) = Some (VInt 0)
  /\ conv [] 9 (EOpt (EPrim PInt32)) (EUnion true [EPrim PInt32; EPrim PString]) (VSome (VInt 3)) = Some (VCase 0 (VInt 3))
  /\ conv [] 9 (EUnion true [EPrim PInt32; EPrim PString]) (EOpt (EPrim PInt32)) (VCase 1 (VStr [120])) = None
  /\ conv [] 9 (EUnion false [EPrim PInt32; EPrim PString; EPrim PFloat32]) (EUnion false [EPrim PString; EPrim PInt32]) (VCase 2 (VBits 0)) = None
  /\ conv [] 9 (EPrim PUint32) (EPrim PInt32) (VInt 3000000000) = None
  /\ conv [] 9 (EVec None r0) (EVec None r1) (VSeq [VSeq [VInt 1; VStr []; VInt 2]]) = Some (VSeq [VSeq [VStr []; VInt 1; VNone; VInt 0]]).
Proof. vm_compute. repeat split. Qed.
Print Assumptions C05_documented_conversions.

(* numbers: an integer becomes the nearest floating-point value (ties to even), a floating-point value the nearest integer
   (std::round: ties away from zero) or a runtime error when the integer type cannot hold it, float32 widens exactly *)
Theorem C05_float_to_int_is_nearest : forall prec ew bits s m e,
  float_decode prec ew bits = Some (s, m, e) -> (e < 0)%Z ->
  exists a, float_round prec ew bits = Some (if s then (- a)%Z else a) /\
            (2 * Z.abs (m - a * 2 ^ (- e)) <= 2 ^ (- e))%Z /\
            ((2 * Z.abs (m - a * 2 ^ (- e)) = 2 ^ (- e))%Z -> (m < a * 2 ^ (- e))%Z).
Proof. exact float_round_nearest. Qed.
Print Assumptions C05_float_to_int_is_nearest.

Theorem C05_small_integers_convert_exactly : forall z, (-4096 <= z <= 4096)%Z ->
  float_round 24 8 (z_to_float 24 8 z) = Some z /\ float_round 53 11 (z_to_float 53 11 z) = Some z.
Proof. exact int_float_exact_bounded. Qed.
Print Assumptions C05_small_integers_convert_exactly.

Theorem C05_number_conversions :
  conv [] 9 (EPrim PFloat32) (EPrim PInt32) (VBits 1075838976) = Some (VInt 3)                (* 2.5f -> 3 *)
  /\ conv [] 9 (EPrim PFloat32) (EPrim PInt32) (VBits 3223322624) = Some (VInt (-3))         (* -2.5f -> -3 *)
  /\ conv [] 9 (EPrim PFloat32) (EPrim PInt32) (VBits 1325400064) = None                     (* 2^31 as float: runtime error *)
  /\ conv [] 9 (EPrim PFloat64) (EPrim PInt64) (VBits 4890909195324358656) = None            (* 2^63 as double: runtime error *)
  /\ conv [] 9 (EPrim PFloat64) (EPrim PUint8) (VBits 4643176031446892544) = Some (VInt 255) (* 255.0 *)
  /\ conv [] 9 (EPrim PInt32) (EPrim PFloat32) (VInt 16777217) = Some (VBits 1266679808)     (* rounds to 16777216.0f *)
  /\ conv [] 9 (EPrim PFloat32) (EPrim PFloat64) (VBits 1075838976) = Some (VBits 4612811918334230528).
Proof. vm_compute. repeat split. Qed.
Print Assumptions C05_number_conversions.

(* the hypothesis of the identity theorem is satisfiable *)
Theorem C05_hypotheses_satisfiable :
  vwf [] 9 (EUnion true [r0; EVec None (EOpt (EPrim PFloat64))]) (VCase 1 (VSeq [VNone; VSome (VBits 5)])) = true
  /\ vwf [] 9 r1 (VSeq [VStr [104]; VInt 5; VNone; VInt 0]) = true.
Proof. vm_compute. split; reflexivity. Qed.
Print Assumptions C05_hypotheses_satisfiable.
