(* C05 — accepted schema evolution preserves data across versions.
   Model.Convert.conv is the documented conversion of a value between two versions of a type; the C++ code yardl generates
   for a chain of versions is compared with it on every run, in both directions (harness/checks/c05.py), the streams being
   decoded by the codec model of C01. *)
From Coq Require Import List NArith ZArith Bool.
From YV Require Import Base.Wire Model.Binary Gen.Tables Model.Json Model.Schema Model.Evolution Model.Convert
  Proofs.BinaryProofs Proofs.ConvertProofs.
Import ListNotations.
Open Scope N_scope.

(* unchanged parts are kept exactly: converting between a type and itself returns the value, for every type and value *)
Theorem C05_unchanged_parts_exactly :
  forall rn f t v, vwf rn f t v = true -> conv rn f t t v = Some v.
Proof. exact conv_identity. Qed.
Print Assumptions C05_unchanged_parts_exactly.

(* a converted value that is well typed for the destination is written and read back exactly by the destination's codec:
   the previous version's reader gets the corresponding values *)
Theorem C05_converted_values_survive_the_codec :
  forall rn f src dst v w rest, conv rn f src dst v = Some w -> has_type (ety_ty f dst) w = true ->
    dec (ety_ty f dst) (enc (ety_ty f dst) w ++ rest) = Some (w, rest).
Proof. intros rn f src dst v w rest _ H. apply dec_enc, H. Qed.
Print Assumptions C05_converted_values_survive_the_codec.

(* the documented conversions on instances: removed dropped, added defaulted (optional: null, required: zero), reordered,
   integer widened; scalar <-> optional; scalar <-> union; optional <-> union with the error the warning announces *)
Definition r0 : ety := ERec [82] [([97], EPrim PInt32); ([98], EPrim PString); ([103], EPrim PInt16)].
Definition r1 : ety := ERec [82] [([98], EPrim PString); ([97], EPrim PInt64); ([110], EOpt (EPrim PString)); ([113], EPrim PInt32)].
Theorem C05_documented_conversions :
  conv [] 9 r0 r1 (VSeq [VInt 5; VStr [104]; VInt 7]) = Some (VSeq [VStr [104]; VInt 5; VNone; VInt 0])
  /\ conv [] 9 r1 r0 (VSeq [VStr [104]; VInt 5; VSome (VStr [120]); VInt 9]) = Some (VSeq [VInt 5; VStr [104]; VInt 0])
  /\ conv [] 9 (EPrim PInt32) (EOpt (EPrim PInt32)) (VInt 3) = Some (VSome (VInt 3))
  /\ conv [] 9 (EOpt (EPrim PString)) (EPrim PString) VNone = Some (VStr [])
  /\ conv [] 9 (EPrim PInt32) (EUnion false [EPrim PString; EPrim PInt32]) (VInt 3) = Some (VCase 1 (VInt 3))
  /\ conv [] 9 (EUnion false [EPrim PInt32; EPrim PString]) (EPrim PInt32) (VCase 1 (VStr [120])) = Some (VInt 0)
  /\ conv [] 9 (EOpt (EPrim PInt32)) (EUnion true [EPrim PInt32; EPrim PString]) (VSome (VInt 3)) = Some (VCase 0 (VInt 3))
  /\ conv [] 9 (EUnion true [EPrim PInt32; EPrim PString]) (EOpt (EPrim PInt32)) (VCase 1 (VStr [120])) = None
  /\ conv [] 9 (EUnion false [EPrim PInt32; EPrim PString; EPrim PFloat32]) (EUnion false [EPrim PString; EPrim PInt32]) (VCase 2 (VBits 0)) = None
  /\ conv [] 9 (EPrim PUint32) (EPrim PInt32) (VInt 3000000000) = None
  /\ conv [] 9 (EVec None r0) (EVec None r1) (VSeq [VSeq [VInt 1; VStr []; VInt 2]]) = Some (VSeq [VSeq [VStr []; VInt 1; VNone; VInt 0]]).
Proof. vm_compute. repeat split. Qed.
Print Assumptions C05_documented_conversions.

(* the hypothesis of the identity theorem is satisfiable *)
Theorem C05_hypotheses_satisfiable :
  vwf [] 9 (EUnion true [r0; EVec None (EOpt (EPrim PFloat64))]) (VCase 1 (VSeq [VNone; VSome (VBits 5)])) = true
  /\ vwf [] 9 r1 (VSeq [VStr [104]; VInt 5; VNone; VInt 0]) = true.
Proof. vm_compute. split; reflexivity. Qed.
Print Assumptions C05_hypotheses_satisfiable.
