(* C07 — protocol step order is enforced by generated readers and writers. *)
From Coq Require Import List NArith Bool Arith.
From YV Require Import Model.ProtoSM Proofs.ProtoSMProofs.
Import ListNotations.

(* C++ writer (uint8_t state_): accepts exactly the sequences that visit the steps in order - value
   steps once, stream steps any number of writes then End - and Close only at the end; for every
   shape whose step count fits the state byte, every call sequence *)
Theorem C07_cpp_writer : forall sh cs, length sh < 256 -> cppw_accepts sh cs = specw_accepts sh cs.
Proof. exact cppw_correct. Qed.
Print Assumptions C07_cpp_writer.

(* C++ reader (state 2*index, odd = completion seen by a batch read but not yet by the caller), single
   and batch reads mixed in any way, for whatever the underlying stream answers *)
Theorem C07_cpp_reader : forall sh cs, 2 * length sh < 256 -> cppr_accepts sh cs = specr_accepts sh cs.
Proof. exact cppr_correct. Qed.
Print Assumptions C07_cpp_reader.

(* MATLAB writer (state_ is a double: no bound on the shape) *)
Theorem C07_matlab_writer : forall sh cs, matw_accepts sh cs = specw_accepts sh cs.
Proof. exact matw_correct. Qed.
Print Assumptions C07_matlab_writer.

Theorem C07_matlab_reader_positions : forall sh st c st', matr_step sh st c = Some st' -> st' = st \/ st' = st + 1.
Proof. exact matr_positions. Qed.
Print Assumptions C07_matlab_reader_positions.

(* the guards are necessary: with 256 (writer) / 128 (reader) steps the uint8_t state wraps; a complete
   in-order sequence can no longer be closed and the first step is accepted a second time *)
Theorem C07_cpp_writer_overflow_refuted :
  let sh := repeat false 256 in
  specw_accepts sh (all_vals 256 ++ [WClose]) = true
  /\ cppw_accepts sh (all_vals 256 ++ [WClose]) = false
  /\ cppw_accepts sh (all_vals 256 ++ [WVal 0]) = true
  /\ specw_accepts sh (all_vals 256 ++ [WVal 0]) = false.
Proof. exact cppw_overflow_refuted. Qed.
Print Assumptions C07_cpp_writer_overflow_refuted.

Theorem C07_cpp_reader_overflow_refuted :
  let sh := repeat false 128 in
  specr_accepts sh (all_rvals 128 ++ [RClose]) = true
  /\ cppr_accepts sh (all_rvals 128 ++ [RClose]) = false
  /\ cppr_accepts sh (all_rvals 128 ++ [RVal 0]) = true
  /\ specr_accepts sh (all_rvals 128 ++ [RVal 0]) = false.
Proof. exact cppr_overflow_refuted. Qed.
Print Assumptions C07_cpp_reader_overflow_refuted.

(* Python writer: close() ends a trailing stream once; closing again changes nothing *)
Theorem C07_py_writer_close_idempotent : forall sh se se',
  pyw_step sh se PWClose = Some se' -> pyw_step sh se' PWClose = Some se'.
Proof. exact pyw_close_idempotent. Qed.
Print Assumptions C07_py_writer_close_idempotent.

Example C07_hyp_sat :
  specr_accepts [false; true; true; false]
    [RVal 0; RBatch 1 true; RBatch 1 false; RItem 2 true; RItem 2 false; RVal 3; RClose] = true
  /\ specw_accepts [false; true; true; false] [WVal 0; WItem 1; WEnd 1; WEnd 2; WVal 3; WClose] = true.
Proof. vm_compute. split; reflexivity. Qed.
Print Assumptions C07_hyp_sat.
