(* C18 — package imports resolve correctly for every import graph. Property theorems only. *)
From Coq Require Import List NArith.
From YV Require Import Model.Packages Proofs.PackagesProofs.
Import ListNotations.
Open Scope N_scope.

(* Termination: [collect] is structurally recursive on the remaining depth (accepted by Coq's guard
   checker), so loading terminates for EVERY directory tree, cyclic ones included. *)

(* A successful load emitted every reachable package exactly once, dependencies first, nothing else,
   and no two loaded directories claim one namespace. *)
Theorem C18_loaded_once : forall F root s, load F root = (s, None) ->
  topo F (fin s)
  /\ (forall d, reach F root d -> In d (fin s))
  /\ (forall d, In d (fin s) -> reach F root d /\ nsof F d <> None)
  /\ (forall d1 d2, In d1 (fin s) -> In d2 (fin s) -> nsof F d1 = nsof F d2 -> d1 = d2).
Proof. exact load_ok. Qed.
Print Assumptions C18_loaded_once.

(* Each error is genuine: a cycle error comes with a real import path between two reachable
   directories of one namespace; a conflict with two different reachable directories of one
   namespace; a missing-package error with a reachable directory that is not there; the depth
   error with max_depth+1 distinct reachable namespaces on one import chain. *)
Theorem C18_errors_sound : forall F root s e, load F root = (s, Some e) -> ErrOK F root max_depth e.
Proof. exact load_err. Qed.
Print Assumptions C18_errors_sound.

(* cyclic imports, namespace conflicts and missing packages are always rejected *)
Theorem C18_bad_graph_rejected : forall F root s, load F root = (s, None) -> good F root.
Proof. exact ok_implies_good. Qed.
Print Assumptions C18_bad_graph_rejected.

(* and a good graph is accepted unless the nesting limit binds *)
Theorem C18_good_graph_accepted : forall F root nss,
  (forall d n, reach F root d -> nsof F d = Some n -> In n nss) -> (length nss <= max_depth)%nat ->
  good F root -> snd (load F root) = None.
Proof. exact good_implies_ok. Qed.
Print Assumptions C18_good_graph_accepted.

(* The result does not depend on the order in which imports are listed - verdict and loaded set -
   as long as the nesting limit cannot bind ... *)
Theorem C18_order_independent_guarded : forall F1 F2 root nss,
  same_up_to_order F1 F2 ->
  (forall d n, reach F1 root d -> nsof F1 d = Some n -> In n nss) -> (length nss <= max_depth)%nat ->
  (snd (load F1 root) = None <-> snd (load F2 root) = None)
  /\ (forall s1 s2, load F1 root = (s1, None) -> load F2 root = (s2, None) ->
        forall d, In d (fin s1) <-> In d (fin s2)).
Proof. exact order_independent. Qed.
Print Assumptions C18_order_independent_guarded.

(* ... and it DOES depend on it when it can: a package reachable both directly and at the end of a
   9-deep chain is accepted when listed first and rejected when listed last. *)
Definition t3 (first second : N) : tree :=
  tree_of ((100, (100, [first; second])) :: (11, (11, [])) ::
           map (fun i => (i, (i, if i =? 9 then [11] else [i + 1]))) [1; 2; 3; 4; 5; 6; 7; 8; 9]).

Theorem C18_order_refuted :
  snd (load (t3 11 1) 100) = None /\ snd (load (t3 1 11) 100) = Some (EDepth 11).
Proof. vm_compute. split; reflexivity. Qed.
Print Assumptions C18_order_refuted.

(* non-vacuity: a diamond is a good graph and is accepted *)
Example C18_hyp_sat :
  snd (load (tree_of [(0, (0, [1; 2])); (1, (1, [3])); (2, (2, [3])); (3, (3, []))]) 0) = None.
Proof. vm_compute. reflexivity. Qed.
Print Assumptions C18_hyp_sat.

(* the constants of the model (varint byte budgets, magic bytes, format version, nesting limit, default
   buffer size >= 10) are those of the current sources (Gen/Tables.v is regenerated from /repo on every run) *)
From YV Require Import Proofs.GenTie.
Theorem C18_constants_are_the_sources : constants_statement.
Proof. exact constants_agree. Qed.
Print Assumptions C18_constants_are_the_sources.
