(* C02 — NDJSON write/read round trip and documented JSON mapping.
   Model.Json.to_json is the documented mapping (docs/reference/ndjson.md) and of_json the generated readers; both are
   compared with generated Python and C++ on every run.  The JSON kind of every shape of type (which decides whether a
   union is written with tags) is Gen.Tables, regenerated from ndjsoncommon.GetJsonDataType before this file is checked. *)
From Coq Require Import List NArith ZArith Bool.
From YV Require Import Base.Wire Model.Binary Gen.Tables Model.Json Proofs.JsonProofs.
Import ListNotations.
Open Scope N_scope.

(* every value of every valid type comes back from the document it is written to: active union case (tagged or not),
   null versus present, omitted optional record fields, enum/flag symbols and out-of-range integers, map keys *)
Theorem C02_value_round_trip :
  forall t, jty_ok t = true -> forall v, jhas_type t v = true -> of_json t (to_json t v) = Some v.
Proof. exact of_json_to_json. Qed.
Print Assumptions C02_value_round_trip.

(* what is written for a union case always has a JSON kind that the table announces for that case: with the kinds of
   the current sources an untagged union can always be told apart (this is the obligation the kind table must meet) *)
Theorem C02_declared_kinds_sound :
  forall t, is_case_ok t = true -> forall v, jhas_type t v = true ->
    N.land (kind_of (to_json t v)) (declared_kind t) = kind_of (to_json t v).
Proof. exact kind_sound_case. Qed.
Print Assumptions C02_declared_kinds_sound.

(* one line per value / stream item, read back with one line of look-ahead: any sequence of step values (streams of any
   length, empty ones included) is returned exactly and nothing is left unread *)
Theorem C02_lines_round_trip :
  forall p ws, jproto_ok p = true -> jwrites_ok p ws = true ->
    exists st', read_lines p (None, write_lines p ws) = Some (ws, st') /\ flat st' = [].
Proof. exact read_write_lines_start. Qed.
Print Assumptions C02_lines_round_trip.

(* with the JSON kinds of the CURRENT sources: text-like and number-like cases next to date/time are tagged, flags next
   to a number are tagged (flags with undeclared bits are written as a number), number next to string is not *)
Theorem C02_tag_decisions :
  simple_union false [([], JTPrim PString); ([], JTPrim PDate)] = false
  /\ simple_union false [([], JTPrim PInt32); ([], JTPrim PDateTime)] = false
  /\ simple_union false [([], JTFlags PUint16 [([97], 1)]); ([], JTPrim PInt32)] = false
  /\ simple_union false [([], JTPrim PInt32); ([], JTPrim PString)] = true.
Proof. vm_compute. repeat split. Qed.
Print Assumptions C02_tag_decisions.

(* the mapping is unambiguous (stated about the writer alone): two well-typed values of a valid type never share a document -
   the written form always identifies the active union case, null versus present, omitted versus present optional fields -
   and two accepted write histories of a protocol never share a line stream *)
From YV Require Import Proofs.JsonInjective.
Theorem C02_document_determines_value : forall t, jty_ok t = true -> forall v1 v2,
  jhas_type t v1 = true -> jhas_type t v2 = true -> to_json t v1 = to_json t v2 -> v1 = v2.
Proof. exact to_json_inj. Qed.
Print Assumptions C02_document_determines_value.
Theorem C02_lines_determine_writes : forall p ws1 ws2,
  jproto_ok p = true -> jwrites_ok p ws1 = true -> jwrites_ok p ws2 = true ->
  write_lines p ws1 = write_lines p ws2 -> ws1 = ws2.
Proof. exact write_lines_inj. Qed.
Print Assumptions C02_lines_determine_writes.

(* the hypotheses are satisfiable: a record with an omitted optional field inside an untagged nullable union, in a stream *)
Definition ex_rec : jty := JTRec [([97], JTPrim PInt32); ([111], JTOpt (JTPrim PString))].
Definition ex_union : jty := JTUnion true [([82], ex_rec); ([102], JTFlags PUint16 [([120], 1); ([121], 2)])].
Definition ex_proto : list jstep := [([115], true, ex_union); ([118], false, JTMap (JTPrim PString) (JTPrim PInt8))].
Definition ex_writes : list jwrite :=
  [JWItems [VCase 0 (VSeq [VInt 5; VNone]); VNone; VCase 1 (VInt 3); VCase 1 (VInt 4); VCase 0 (VSeq [VInt 6; VSome (VStr [104])])];
   JWVal (VMapv [(VStr [107], VInt (-1))])].
Theorem C02_hypotheses_satisfiable :
  jproto_ok ex_proto = true /\ jwrites_ok ex_proto ex_writes = true /\ length (write_lines ex_proto ex_writes) = 6%nat.
Proof. vm_compute. repeat split. Qed.
Print Assumptions C02_hypotheses_satisfiable.
