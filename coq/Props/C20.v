(* C20 — watch mode converges to the output for the final package contents.
   Model.Watch.wstep is the model of the CURRENT dedupLoop: Gen.Watch (regenerated from generatecommand.go on every run)
   says whether regenerations are serialized by a mutex.  Timing, fsnotify and the file system are outside the model; the
   harness replays edit schedules against the real watcher (harness/checks/c20.py). *)
From Coq Require Import List Arith Bool.
From YV Require Import Gen.Watch Model.Watch Proofs.WatchProofs.
Import ListNotations.

(* for every interleaving of saves, timer expiries and completions: once nothing is armed, running or waiting, the files
   on disk were generated from the final contents *)
Theorem C20_watch_converges :
  forall es s, wrun wstep winit es = Some s -> quiescent s = true -> disk s = contents s.
Proof. unfold wstep. change watch_serialized with true. exact serial_converges. Qed.
Print Assumptions C20_watch_converges.

(* the shape of the loop the model describes is the shape of the current sources *)
Theorem C20_loop_shape : watch_debounced = true /\ watch_initial_run = true /\ watch_recovers_panics = true.
Proof. repeat split; reflexivity. Qed.
Print Assumptions C20_loop_shape.

(* quiescence is always reachable without further edits (the watcher does not get stuck with work pending) *)
Theorem C20_never_stuck :
  forall s, winv s -> quiescent s = false -> exists e, e <> Edit /\ step_serial s e <> None.
Proof. exact serial_never_stuck. Qed.
Print Assumptions C20_never_stuck.

(* REFUTED without serialization (the code before the fix): a slow regeneration overtaken by a fast one leaves stale output *)
Theorem C20_unserialized_refuted :
  exists es s, wrun step_free winit es = Some s /\ quiescent s = true /\ disk s <> contents s.
Proof. exact free_diverges. Qed.
Print Assumptions C20_unserialized_refuted.
