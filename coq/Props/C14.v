(* C14 — all target languages follow the same serialization plan.
   The plan of every protocol step is translated out of the GENERATED code of each backend on every run
   (harness/lib/plans.py: Python binary and NDJSON via the Python AST, MATLAB and C++ via a small expression parser) into a
   Model.Binary.ty, and compared inside Coq with the structural type the schema prescribes (Model.Schema.wire). *)
From Coq Require Import List NArith ZArith Bool.
From YV Require Import Base.Wire Model.Binary Gen.Tables Model.Json Model.Schema Model.SchemaCases Model.PlanCases Proofs.PlanProofs.
Import ListNotations.
Open Scope N_scope.

(* the comparison the check evaluates is sound *)
Theorem C14_plan_comparison_sound : forall a b, ty_eqb a b = true -> a = b.
Proof. exact ty_eqb_eq. Qed.
Print Assumptions C14_plan_comparison_sound.

(* two backends whose plans pass the comparison with the schema's structural type lay every value out identically, and
   what one writes the other reads back *)
Theorem C14_same_plan_same_bytes :
  forall w t1 t2, ty_eqb w t1 = true -> ty_eqb w t2 = true ->
    forall v, enc t1 v = enc t2 v /\ (has_type w v = true -> forall rest, dec t2 (enc t1 v ++ rest) = Some (v, rest)).
Proof. exact same_plan_same_bytes. Qed.
Print Assumptions C14_same_plan_same_bytes.

(* the NDJSON plan and the binary plan are about the same values: a value typed for an NDJSON plan is typed for the binary
   plan obtained by forgetting names, symbols and the enum/flags distinction *)
Theorem C14_ndjson_plan_erases_to_binary_plan :
  forall t v, jhas_type t v = true -> has_type (jty_erase t) v = true.
Proof. exact erase_typed. Qed.
Print Assumptions C14_ndjson_plan_erases_to_binary_plan.

(* plans are compared up to the base name of enums over size/uint64 (numpy has no size type): same bytes *)
Theorem C14_enum_size_is_uint64 :
  forall v, enc (TEnum PSize) v = enc (TEnum PUint64) v /\ has_type (TEnum PSize) v = has_type (TEnum PUint64) v.
Proof. exact enum_size_is_uint64. Qed.
Print Assumptions C14_enum_size_is_uint64.

Theorem C14_example :
  ty_eqb (jty_erase (JTRec [([97], JTFlags PUint16 []); ([98], JTUnion true [([], JTVec (JTPrim PInt8)); ([], JTPrim PString)])]))
         (TRec [TEnum PUint16; TUnion true [TVec (TPrim PInt8); TPrim PString]]) = true.
Proof. reflexivity. Qed.
Print Assumptions C14_example.
