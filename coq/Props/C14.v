(* C14 — all target languages follow the same serialization plan.
   The plan of every protocol step is translated out of the GENERATED code of each backend on every run
   (harness/lib/plans.py: Python binary and NDJSON via the Python AST, MATLAB and C++ via a small expression parser) into a
   Model.Binary.ty, and compared inside Coq with the structural type the schema prescribes (Model.Schema.wire). *)
From Coq Require Import List NArith ZArith Bool.
From YV Require Import Base.Wire Model.Binary Gen.Tables Model.Json Model.Schema Model.SchemaCases Model.PlanCases Proofs.PlanProofs.
From YV Require Import Model.CppLayout Proofs.CppLayoutProofs.
From YV Require Import Model.CodedCpp Model.CodedPy Model.PyTyped Model.NumpyLayout Proofs.NumpyLayoutProofs.
Import ListNotations.
Open Scope N_scope.

(* the comparison the check evaluates is sound *)
Theorem C14_plan_comparison_sound : forall a b, ty_eqb a b = true -> a = b.
Proof. exact ty_eqb_eq. Qed.
Print Assumptions C14_plan_comparison_sound.

(* two backends whose plans pass the comparison with the schema's structural type lay every value out identically, and
   what one writes the other reads back *)
Theorem C14_same_plan_same_bytes :
  forall w t1 t2, ty_eqb w t1 = true -> ty_eqb w t2 = true ->
    forall v, enc t1 v = enc t2 v /\ (has_type w v = true -> forall rest, dec t2 (enc t1 v ++ rest) = Some (v, rest)).
Proof. exact same_plan_same_bytes. Qed.
Print Assumptions C14_same_plan_same_bytes.

(* the NDJSON plan and the binary plan are about the same values: a value typed for an NDJSON plan is typed for the binary
   plan obtained by forgetting names, symbols and the enum/flags distinction *)
Theorem C14_ndjson_plan_erases_to_binary_plan :
  forall t v, jhas_type t v = true -> has_type (jty_erase t) v = true.
Proof. exact erase_typed. Qed.
Print Assumptions C14_ndjson_plan_erases_to_binary_plan.

(* plans are compared up to the base name of enums over size/uint64 (numpy has no size type): same bytes *)
Theorem C14_enum_size_is_uint64 :
  forall v, enc (TEnum PSize) v = enc (TEnum PUint64) v /\ has_type (TEnum PSize) v = has_type (TEnum PUint64) v.
Proof. exact enum_size_is_uint64. Qed.
Print Assumptions C14_enum_size_is_uint64.

Theorem C14_example :
  ty_eqb (jty_erase (JTRec [([97], JTFlags PUint16 []); ([98], JTUnion true [([], JTVec (JTPrim PInt8)); ([], JTPrim PString)])]))
         (TRec [TEnum PUint16; TUnion true [TVec (TPrim PInt8); TPrim PString]]) = true.
Proof. reflexivity. Qed.
Print Assumptions C14_example.

(* The C++ memcpy fast path follows the plan: whenever IsTriviallySerializable holds for the C++ type of a resolved type
   (leaf and array specializations of serializers.h, generated record specializations), the sizeof(T) bytes memcpy copies
   are exactly the field-by-field encoding the schema prescribes, for every well-typed value: no padding byte, no member
   out of order, nothing that occupies storage without being part of the stream. *)
Theorem C14_memcpy_fast_path_sound :
  forall t v, ts true t = true -> has_type t v = true -> img t v = map Some (enc t v).
Proof. exact ts_sound. Qed.
Print Assumptions C14_memcpy_fast_path_sound.

Theorem C14_memcpy_size : forall t v, ts true t = true -> has_type t v = true ->
  exists s a, layout t = Some (s, a) /\ N.of_nat (length (enc t v)) = s.
Proof. exact ts_size. Qed.
Print Assumptions C14_memcpy_size.

(* without the element-count guard of the array specializations (the header before /repo commit 7b8854d) the statement is
   false: record {a: uint8*0, b: uint8} is trivially serializable and its object has one byte more than its encoding *)
Theorem C14_unguarded_trait_refuted :
  exists t v, ts false t = true /\ has_type t v = true /\ img t v <> map Some (enc t v).
Proof. exact ts_unguarded_refuted. Qed.
Print Assumptions C14_unguarded_trait_refuted.

(* independent of the ABI: members in declaration order, not overlapping, inside the object, and sizeof = sum of the member
   sizes (what the generated specialization tests) leave no room for padding *)
Theorem C14_no_padding_any_abi : forall offs sizes o total,
  ordered_from o offs sizes total -> total <= o + sumN sizes -> packed_from o offs sizes.
Proof. exact no_padding_any_abi. Qed.
Print Assumptions C14_no_padding_any_abi.

(* non-vacuity: packed records are trivially serializable, padded ones are not *)
Example C14_trait_examples :
  ts true (TRec [TPrim PFloat32; TPrim PFloat32]) = true /\
  ts true (TRec [TFixVec 3 (TPrim PUint8); TRec [TPrim PInt8; TPrim PBool]; TFixArr [2; 2] (TPrim PInt8)]) = true /\
  ts true (TRec [TPrim PInt8; TPrim PFloat32]) = false /\
  ts true (TRec [TFixVec 0 (TPrim PUint8); TPrim PUint8]) = false.
Proof. vm_compute. repeat split. Qed.
Print Assumptions C14_trait_examples.

(* The Python array fast path follows the plan too: when NDArraySerializerBase hands value.data to write_bytes_directly
   (element serializer trivially serializable, element dtype without padding: Model.PyTyped.py_fast), the raw bytes of a
   C-contiguous array are the concatenation of the element encodings - numpy's aligned structured dtypes modelled in
   Model/NumpyLayout.v. *)
Theorem C14_python_array_fast_path_sound : forall e xs, py_fast e = true -> forallb (has_type e) xs = true ->
  concat (map (nimg e) xs) = map Some (concat (map (enc_py e) xs)).
Proof. exact py_fast_path_sound. Qed.
Print Assumptions C14_python_array_fast_path_sound.

(* false without the padding test (the code before /repo commit cea71d1) *)
Theorem C14_python_fast_path_unguarded_refuted :
  exists e x, py_ts e = true /\ has_type e x = true /\ nimg e x <> map Some (enc_py e x).
Proof. exact py_fast_path_unguarded_refuted. Qed.
Print Assumptions C14_python_fast_path_unguarded_refuted.
