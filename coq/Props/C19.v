(* C19 — computed fields mean the same thing in every target language. *)
From Coq Require Import List NArith ZArith Bool.
From YV Require Import Model.Binary Gen.Tables Model.Expr Proofs.ExprProofs.
Import ListNotations.
Open Scope Z_scope.

(* the static type does not depend on operand order: the table (regenerated from typefunctions.go on
   every run) is symmetric on all 18 x 18 pairs, and so is the type of every binary expression *)
Theorem C19_common_type_symmetric : forall a b, common_type a b = common_type b a.
Proof. exact common_type_symmetric. Qed.
Print Assumptions C19_common_type_symmetric.

Theorem C19_infer_symmetric : forall env o a b, infer env (EBin o a b) = infer env (EBin o b a).
Proof. exact infer_operand_order. Qed.
Print Assumptions C19_infer_symmetric.

(* the table is "the smallest type of the wider kind containing both operands" except for twelve listed pairs *)
Theorem C19_promotion_spec : forall a b, common_type a b = table_expected a b.
Proof. exact common_type_is_rule_with_exceptions. Qed.
Print Assumptions C19_promotion_spec.

(* well-typed integer expressions without division/power whose intermediate results stay in range
   evaluate to the mathematical value in generated C++ and in generated Python *)
Theorem C19_eval_agree_guarded : forall env vals e, in_range_all env vals e = true ->
  eval_cpp env vals e = eval_math vals e /\ eval_py vals e = eval_math vals e.
Proof. exact eval_agree. Qed.
Print Assumptions C19_eval_agree_guarded.

(* the guards are needed *)
Theorem C19_div_refuted :
  eval_cpp [PInt32; PInt32] [-7; 2] (EBin ODiv (EField 0) (EField 1)) = -3
  /\ eval_py [-7; 2] (EBin ODiv (EField 0) (EField 1)) = -4.
Proof. exact division_refuted. Qed.

Theorem C19_unsigned_negation_refuted :
  eval_cpp [PUint32] [1] (ENeg (EField 0)) = 4294967295 /\ eval_py [1] (ENeg (EField 0)) = -1.
Proof. exact unsigned_negation_refuted. Qed.

Example C19_hyp_sat :
  in_range_all [PUint8; PInt16; PInt64] [200; -5; 1000000]
    (EBin OSub (EField 2) (EBin OSub (EBin OMul (EField 0) (EField 1)) (ELit 3))) = true.
Proof. exact eval_agree_hyp_sat. Qed.
