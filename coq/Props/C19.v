(* C19 — computed fields mean the same thing in every target language. *)
From Coq Require Import List NArith ZArith Bool.
From YV Require Import Model.Binary Gen.Tables Model.Expr Proofs.ExprProofs Model.FloatExpr Proofs.FloatExprProofs.
Import ListNotations.
Open Scope Z_scope.

(* the static type does not depend on operand order: the table (regenerated from typefunctions.go on
   every run) is symmetric on all 18 x 18 pairs, and so is the type of every binary expression *)
Theorem C19_common_type_symmetric : forall a b, common_type a b = common_type b a.
Proof. exact common_type_symmetric. Qed.
Print Assumptions C19_common_type_symmetric.

Theorem C19_infer_symmetric : forall env o a b, infer env (EBin o a b) = infer env (EBin o b a).
Proof. exact infer_operand_order. Qed.
Print Assumptions C19_infer_symmetric.

(* the table is "the smallest type of the wider kind containing both operands" except for twelve listed pairs *)
Theorem C19_promotion_spec : forall a b, common_type a b = table_expected a b.
Proof. exact common_type_is_rule_with_exceptions. Qed.
Print Assumptions C19_promotion_spec.

(* well-typed integer expressions without division/power whose intermediate results stay in range
   evaluate to the mathematical value in generated C++ and in generated Python *)
Theorem C19_eval_agree_guarded : forall env vals e, in_range_all env vals e = true ->
  eval_cpp env vals e = eval_math vals e /\ eval_py vals e = eval_math vals e.
Proof. exact eval_agree. Qed.
Print Assumptions C19_eval_agree_guarded.

(* the guards are needed *)
Theorem C19_div_refuted :
  eval_cpp [PInt32; PInt32] [-7; 2] (EBin ODiv (EField 0) (EField 1)) = -3
  /\ eval_py [-7; 2] (EBin ODiv (EField 0) (EField 1)) = -4.
Proof. exact division_refuted. Qed.
Print Assumptions C19_div_refuted.

Theorem C19_unsigned_negation_refuted :
  eval_cpp [PUint32] [1] (ENeg (EField 0)) = 4294967295 /\ eval_py [1] (ENeg (EField 0)) = -1.
Proof. exact unsigned_negation_refuted. Qed.
Print Assumptions C19_unsigned_negation_refuted.

(* floating-point computed fields (double operands, + - * / and unary minus): the value is, at every operator, the
   correctly rounded result (nearest, ties to even) of the mathematical operation on the operand values, provided no
   intermediate result overflows and no divisor is zero - one value, which generated C++ and generated Python both produce
   (tie: bit patterns compared on every run) *)
Theorem C19_float_eval_is_rounded_math : forall fields e, fok fields e ->
  B2R64 (feval fields e) = reval fields e /\ fin64 (feval fields e) = true.
Proof. exact feval_correct. Qed.
Print Assumptions C19_float_eval_is_rounded_math.

(* division of doubles is division: 7.0 / 2.0 = 3.5 and not the 3.0 of floor division *)
Theorem C19_float_division_is_not_floor :
  fbits (feval [4619567317775286272; 4611686018427387904] (FBin FDiv (FField 0) (FField 1))) = 4615063718147915776
  /\ 4615063718147915776 <> 4613937818241073152.
Proof. exact float_division_is_not_floor. Qed.
Print Assumptions C19_float_division_is_not_floor.

Example C19_float_hyp_sat : fok [4619567317775286272; 4611686018427387904] (FBin FDiv (FField 0) (FField 1)).
Proof. exact fok_sat. Qed.
Print Assumptions C19_float_hyp_sat.

(* float32 operands: the generated C++ computes in float (feval32), the generated Python holds float32 fields as Python floats and
   computes in double (feval on the widened operands) - both tied by bit patterns on every run; the two values are different
   real numbers already for 0.1f + 0.2f (known finding float32-arithmetic-in-double) *)
Theorem C19_float32_languages_differ_refuted :
  let fs := [1036831949; 1045220557] in
  let e := FBin FAdd (FField 0) (FField 1) in
  widen (fbits32 (feval32 fs e)) <> fbits (feval (map widen fs) e).
Proof. exact float32_languages_differ. Qed.
Print Assumptions C19_float32_languages_differ_refuted.

Example C19_hyp_sat :
  in_range_all [PUint8; PInt16; PInt64] [200; -5; 1000000]
    (EBin OSub (EField 2) (EBin OSub (EBin OMul (EField 0) (EField 1)) (ELit 3))) = true.
Proof. exact eval_agree_hyp_sat. Qed.
Print Assumptions C19_hyp_sat.
