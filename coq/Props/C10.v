(* C10 — the front end is total: any input gives success or located diagnostics.
   What is PROVED is the logic of the diagnostic pipeline: dsl.Validate runs the passes of Gen.Passes (regenerated from
   validation*.go on every run) over one error sink and returns an error iff the sink is not empty.  That the Go code never
   panics, hangs or exhausts memory on arbitrary bytes lives in the runtime and is explored by fuzzing the real CLI
   (harness/checks/c10.py); it is not a theorem. *)
From Coq Require Import List String Bool Arith.
From YV Require Import Model.Passes Gen.Passes Proofs.PassesProofs.
Import ListNotations.
Open Scope string_scope.

(* whatever the passes are and in whatever order: a problem that any pass would report makes the run end in an error,
   also when guarded passes are skipped *)
Theorem C10_no_finding_is_lost :
  forall finds ps, (exists p, In p ps /\ 0 < finds (fst p)) -> 0 < fst (run finds ps 0).
Proof. intros finds ps H. apply any_finding_rejects, H. Qed.
Print Assumptions C10_no_finding_is_lost.

(* a guarded pass runs only when nothing was reported before it *)
Theorem C10_guarded_passes_run_clean :
  forall finds ps name before, In (name, before, true) (snd (run finds ps 0)) ->
    In (name, true) ps -> ~ In (name, false) ps -> before = 0.
Proof. intros finds ps name before H. apply (proj2 (proj2 (guarded_runs_clean finds ps 0) name before H)). Qed.
Print Assumptions C10_guarded_passes_run_clean.

(* the passes that dereference resolved definitions (they would fail on unresolved references) come after resolveTypes
   and carry the guard - in the pass list of the CURRENT sources *)
Definition needs_resolution : list string :=
  ["convertGenericReferences"; "validateResolvedMapKeys"; "validateUnionCases"; "validateEnums"; "resolveComputedFields";
   "removeUnusedDeclarationPatterns"; "validateGenericParametersUsed"].
Theorem C10_passes_needing_resolution_are_guarded :
  forallb (fun n => guarded_of n validation_passes &&
                    match index_of "resolveTypes" validation_passes, index_of n validation_passes with
                    | Some i, Some j => Nat.ltb i j
                    | _, _ => false
                    end) needs_resolution = true.
Proof. vm_compute. reflexivity. Qed.
Print Assumptions C10_passes_needing_resolution_are_guarded.

Theorem C10_example :
  rejected (fun n => if String.eqb n "resolveTypes" then 2 else 0) validation_passes = true
  /\ rejected (fun _ => 0) validation_passes = false.
Proof. vm_compute. split; reflexivity. Qed.
Print Assumptions C10_example.
