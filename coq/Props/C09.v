(* C09 — the language rules are enforced wherever a violation occurs.
   What is PROVED is the structural precondition the validation passes rely on: the generic traversals
   (VisitorWithContext.VisitChildren, defaultRewriteImpl) reach every field of every node type that can hold nodes.
   Gen.Visitor is regenerated on every run from pkg/dsl by a go/types + go/ast inventory (harness/go/visitor).
   That each rule is actually enforced at each position is explored by rule injection through the real CLI
   (harness/checks/c09.py); it is not a theorem. *)
From Coq Require Import List String Bool.
From YV Require Import Gen.Visitor.
Import ListNotations.
Open Scope string_scope.

Definition smem (s : string) (l : list string) : bool := existsb (String.eqb s) l.
Fixpoint lookup (k : string) (l : list (string * list string)) : option (list string) :=
  match l with [] => None | (k', v) :: r => if String.eqb k k' then Some v else lookup k r end.

(* fields that hold nodes but are NOT children: position data, cross references filled in by resolution, declared type
   parameters / instantiation arguments kept on the definition's meta data, and per-namespace import / version data
   (imported namespaces and previous versions are namespaces of the environment in their own right) *)
Definition not_children : list (string * string) :=
  [("*", "NodeMeta"); ("*", "ResolvedType"); ("*", "ResolvedDefinition");
   ("DefinitionMeta", "TypeParameters"); ("DefinitionMeta", "TypeArguments");
   ("Namespace", "References"); ("Namespace", "DefinitionChanges")].
Definition is_child (ty f : string) : bool :=
  negb (existsb (fun p => (String.eqb (fst p) "*" || String.eqb (fst p) ty) && String.eqb (snd p) f) not_children).

(* node types that are never visited as nodes of their own: their content is visited from the parent's case *)
Definition visited_through_parent : list string := ["NodeMeta"; "SubscriptArgument"].

Definition covers (cases : list (string * list string)) : bool :=
  forallb (fun nf =>
             let '(ty, fields) := nf in
             match lookup ty cases with
             | Some touched => forallb (fun f => negb (is_child ty f) || smem f touched) fields
             | None => smem ty visited_through_parent
             end) node_fields.

Theorem C09_visitor_reaches_every_child : covers visit_children_cases = true.
Proof. vm_compute. reflexivity. Qed.
Print Assumptions C09_visitor_reaches_every_child.

Theorem C09_rewriter_reaches_every_child : covers default_rewrite_cases = true.
Proof. vm_compute. reflexivity. Qed.
Print Assumptions C09_rewriter_reaches_every_child.

(* the statement is not vacuous: the inventory lists the node types the rules are about, and a traversal that skipped
   the type arguments of a reference would not pass *)
Theorem C09_inventory_is_meaningful :
  lookup "SimpleType" node_fields <> None /\ lookup "GeneralizedType" node_fields <> None /\ lookup "TypeCase" node_fields <> None
  /\ covers (map (fun c => if String.eqb (fst c) "SimpleType" then (fst c, []) else c) visit_children_cases) = false.
Proof. vm_compute. repeat split; discriminate. Qed.
Print Assumptions C09_inventory_is_meaningful.
