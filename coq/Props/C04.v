(* C04 — every stream carries a schema that pins down its encoding.
   Model.Schema.schema_of is GetProtocolSchema (closure of the reached definitions, comments / computed fields / the
   enum-or-flags distinction stripped, sorted by qualified name); [wire] is the structural type of every step, i.e. what
   Model.Binary encodes with.  Both are compared with the implementation on every run (harness/checks/c04.py). *)
From Coq Require Import List NArith ZArith Bool Permutation String.
From YV Require Import Base.Wire Model.Binary Model.Json Model.Schema Model.SchemaCases Proofs.SchemaProofs.
Import ListNotations.
Open Scope N_scope.
Open Scope string_scope.

(* equal schemas => equal encodings of every step, for any two environments and protocols: an edit that alters how some
   value is (binary-)encoded changes the schema *)
Theorem C04_schema_pins_encoding :
  forall f env p env' p', env_ok env = true -> env_ok env' = true ->
    schema_of f env p = schema_of f env' p' -> wire f env p = wire f env' p'.
Proof. exact schema_pins_encoding. Qed.
Print Assumptions C04_schema_pins_encoding.

(* the schema depends only on the protocol and the definitions it reaches *)
Theorem C04_depends_only_on_reached :
  forall f env p env' p', env_ok env = true -> env_ok env' = true -> fp_proto p' = fp_proto p ->
    agree (map f_def env) (map f_def env') (reach f (map f_def env) (fp_proto p)) ->
    schema_of f env' p' = schema_of f env p.
Proof. exact schema_depends_on_reached. Qed.
Print Assumptions C04_depends_only_on_reached.

(* edits that cannot affect the encoding: comments, computed fields (everything outside f_def / fp_proto) ... *)
Theorem C04_comments_and_computed_fields_are_neutral :
  forall f env env' p p', map f_def env' = map f_def env -> fp_proto p' = fp_proto p ->
    schema_of f env' p' = schema_of f env p.
Proof. exact schema_ignores_stripped. Qed.
Print Assumptions C04_comments_and_computed_fields_are_neutral.

(* ... definition order and file layout (any permutation of the definitions) ... *)
Theorem C04_definition_order_is_neutral :
  forall f env env' p, env_ok env = true -> env_ok env' = true -> Permutation env env' ->
    schema_of f env' p = schema_of f env p.
Proof. exact schema_ignores_order. Qed.
Print Assumptions C04_definition_order_is_neutral.

(* ... and definitions the protocol does not reach *)
Theorem C04_unrelated_definitions_are_neutral :
  forall f env extra p, env_ok env = true -> env_ok (env ++ extra) = true ->
    (forall n, In n (reach f (map f_def env) (fp_proto p)) -> ~ In n (map d_name (map f_def extra))) ->
    schema_of f (env ++ extra) p = schema_of f env p.
Proof. exact schema_ignores_unrelated. Qed.
Print Assumptions C04_unrelated_definitions_are_neutral.

(* the hypotheses are satisfiable and the expansion is defined: a generic record reached through an alias *)
Definition ex_env : list fdef :=
  [ {| f_def := {| d_name := bytes_of "N.G"; d_params := [bytes_of "T"];
                   d_body := BRecord [(bytes_of "x", SRef (bytes_of "T") []); (bytes_of "y", SVec (Some 3) (SRef (bytes_of "N.E") []))] |};
       f_comments := [bytes_of "a comment"]; f_computed := [bytes_of "z"]; f_flags := false |};
    {| f_def := {| d_name := bytes_of "N.A"; d_params := []; d_body := BAlias (SRef (bytes_of "N.G") [SRef (bytes_of "string") []]) |};
       f_comments := []; f_computed := []; f_flags := false |};
    {| f_def := {| d_name := bytes_of "N.E"; d_params := []; d_body := BEnum (Some (SRef (bytes_of "uint8") [])) [(bytes_of "a", 1%Z)] |};
       f_comments := []; f_computed := []; f_flags := true |};
    {| f_def := {| d_name := bytes_of "N.Unused"; d_params := []; d_body := BAlias (SRef (bytes_of "int32") []) |};
       f_comments := []; f_computed := []; f_flags := false |} ].
Definition ex_p : fproto :=
  {| fp_proto := {| p_name := bytes_of "P";
                    p_steps := [(bytes_of "s", true, SCases [([], None); ([], Some (SRef (bytes_of "N.A") []))])] |};
     fp_comments := [] |}.
Theorem C04_hypotheses_satisfiable :
  env_ok ex_env = true
  /\ map d_name (snd (schema_of 16 ex_env ex_p)) = [bytes_of "N.A"; bytes_of "N.E"; bytes_of "N.G"]
  /\ wire 16 ex_env ex_p = [(true, Some (TOpt (TRec [TPrim PString; TFixVec 3 (TEnum PUint8)])))].
Proof. vm_compute. repeat split. Qed.
Print Assumptions C04_hypotheses_satisfiable.

(* REFUTED for NDJSON: the schema does not record whether a definition is an enum or flags (IsFlags is not marshalled),
   yet the NDJSON documents differ ("a" versus ["a"]).  The binary encoding is the same.  Recorded as a known finding. *)
Definition ef (flags : bool) : list fdef :=
  [ {| f_def := {| d_name := bytes_of "N.E"; d_params := []; d_body := BEnum None [(bytes_of "a", 1%Z); (bytes_of "b", 2%Z)] |};
       f_comments := []; f_computed := []; f_flags := flags |} ].
Definition ef_p : fproto :=
  {| fp_proto := {| p_name := bytes_of "P"; p_steps := [(bytes_of "e", false, SRef (bytes_of "N.E") [])] |}; fp_comments := [] |}.
Theorem C04_enum_vs_flags_ndjson_refuted :
  schema_of 8 (ef false) ef_p = schema_of 8 (ef true) ef_p
  /\ to_json (JTEnum PInt32 [(bytes_of "a", 1%Z); (bytes_of "b", 2%Z)]) (VInt 1)
     <> to_json (JTFlags PInt32 [(bytes_of "a", 1); (bytes_of "b", 2)]) (VInt 1).
Proof. split; [reflexivity|vm_compute; discriminate]. Qed.
Print Assumptions C04_enum_vs_flags_ndjson_refuted.
